//! C08 — compilation and error rendering are total: no panic, abort or hang.
//!
//! Decided as an enumerated obligation set over the MIR of the three crates:
//! every panic-capable construct in a body reachable from the public API is either
//! auto-discharged by a stated rule, listed in audit/panic.json (benign with the
//! invariant named / present at the audited baseline), or a finding. Recursion
//! classes (SCCs of the call graph) and non-iterator loops are audited likewise.
use crate::mir::{Body, Facts};
use crate::model::{self, tok, Model};
use crate::report::Ctx;
use serde_json::{json, Value};
use std::collections::{BTreeMap, BTreeSet};

#[derive(Debug, Clone)]
pub struct Site {
    pub owner: String, // enclosing named fn (closures folded into their parent)
    pub kind: String,
    pub shape: String,
    pub file: String,
    pub line: usize,
    pub body: usize,
}

const PANIC_MACROS: [&str; 11] = [
    "panic", "todo", "unimplemented", "unreachable", "assert", "assert_eq", "assert_ne", "debug_assert", "debug_assert_eq", "debug_assert_ne", "unreachable_unchecked",
];

fn short(callee: &str) -> String {
    // drop generic noise: keep the readable path
    let mut s = callee.replace("std::", "").replace("core::", "").replace("alloc::", "");
    if s.len() > 90 {
        s.truncate(90);
    }
    s
}

pub fn owner_of(path: &str) -> String {
    // strip trailing ::{closure#n} / ::{closure#n}::{closure#m} components
    let mut p = path.to_string();
    loop {
        if let Some(i) = p.rfind("::{closure#") {
            if p[i..].ends_with('}') && !p[i + 2..].contains("::") {
                p.truncate(i);
                continue;
            }
            // closure followed by nested items: cut at the closure
            p.truncate(i);
            continue;
        }
        break;
    }
    p
}

pub fn classify_call(callee: &str, macros: &[String]) -> Option<(String, String)> {
    let c = callee;
    let is_panic_entry = c.starts_with("core::panicking::")
        || c.starts_with("std::rt::begin_panic")
        || c.starts_with("std::rt::panic")
        || c.contains("panicking::panic")
        || c == "core::option::expect_failed"
        || c == "core::result::unwrap_failed"
        || c == "core::option::unwrap_failed";
    if is_panic_entry {
        let mac = macros.iter().find(|m| PANIC_MACROS.contains(&m.as_str())).cloned().unwrap_or_else(|| "panic-call".to_string());
        return Some(("explicit".into(), format!("{}!", mac)));
    }
    let last = c.rsplit("::").next().unwrap_or("");
    let opt_res = (c.contains("option::Option::<") || c.contains("result::Result::<")) && !c.contains(" as ");
    if opt_res && ["unwrap", "expect", "unwrap_err", "expect_err"].contains(&last) {
        let which = if c.contains("option::Option") { "Option" } else { "Result" };
        return Some(("unwrap".into(), format!("{}::{}", which, last)));
    }
    if (c.contains("ops::Index<") || c.contains("ops::IndexMut<")) && (last == "index" || last == "index_mut") {
        return Some(("index".into(), short(c)));
    }
    if c.contains("cell::RefCell::<") && (last == "borrow" || last == "borrow_mut") {
        return Some(("refcell".into(), format!("RefCell::{}", last)));
    }
    if c.starts_with("std::process::exit") || c.starts_with("std::process::abort") {
        return Some(("abort".into(), short(c)));
    }
    const CURATED: [&str; 30] = [
        "vec::Vec::<T, A>::remove", "vec::Vec::<T, A>::insert", "vec::Vec::<T, A>::swap_remove", "vec::Vec::<T, A>::drain",
        "vec::Vec::<T, A>::split_off", "string::String::remove", "string::String::insert", "string::String::insert_str",
        "string::String::truncate", "string::String::drain", "string::String::split_off", "string::String::replace_range",
        "::split_at", "::split_at_mut", "::copy_from_slice", "::clone_from_slice", "::chunks", "::chunks_exact", "::windows",
        "Iterator::step_by", "proc_macro2::Ident::new", "quote::__private::mk_ident", "proc_macro2::Literal::f64_", "proc_macro2::Literal::f32_",
        "char::methods::<impl char>::from_digit", "::pow", "::abs", "std::thread::spawn", "collections::VecDeque::<T, A>::remove", "::rotate_left",
    ];
    for pat in CURATED {
        if pat.starts_with("::") {
            if c.ends_with(pat) && (c.contains("slice::") || c.contains("str::") || c.contains("num::")) {
                return Some(("lib-panics".into(), short(c)));
            }
        } else if c.contains(pat) {
            return Some(("lib-panics".into(), short(c)));
        }
    }
    None
}

pub fn classify_assert(a: &str) -> Option<(String, String)> {
    if a.starts_with("other:") {
        return None; // debug-build pointer checks
    }
    // auto-discharge: Add/Mul overflow on usize (needs > 2^64 elements or bytes: resource-bounded)
    if a == "overflow:Add:usize" || a == "overflow:Mul:usize" {
        return Some(("auto".into(), a.to_string()));
    }
    Some(("arith".into(), a.to_string()))
}

pub fn collect_sites(facts: &Facts, within: &BTreeSet<usize>) -> (Vec<Site>, usize) {
    let mut out = vec![];
    let mut auto = 0;
    for &i in within {
        let b: &Body = &facts.bodies[i];
        for bl in &b.blocks {
            if bl.cleanup {
                continue;
            }
            let cls = match bl.t.as_str() {
                "call" => classify_call(&bl.callee, &bl.macros),
                "assert" => classify_assert(&bl.assert),
                _ => None,
            };
            if let Some((kind, shape)) = cls {
                if kind == "auto" {
                    auto += 1;
                    continue;
                }
                out.push(Site { owner: format!("{}::{}", b.krate, owner_of(&b.path)), kind, shape, file: b.file.clone(), line: bl.line, body: i });
            }
        }
    }
    (out, auto)
}

pub fn roots(facts: &Facts) -> Vec<usize> {
    facts.find(|b| {
        if b.kind == "Closure" {
            return false;
        }
        match b.krate.as_str() {
            // the compile path and error rendering: Compiler's pub methods, every Backend impl,
            // Display/Debug/Error impls (error rendering prints IR with {:?}) and contextualize()
            "rasn_compiler" => {
                (b.is_pub && b.path.starts_with("Compiler::<"))
                    || b.impl_trait.ends_with("Backend")
                    || ["std::fmt::Display", "std::fmt::Debug", "std::error::Error"].contains(&b.impl_trait.as_str())
                    || b.path.ends_with("::contextualize")
            }
            "rasn_compiler_cli" => b.path == "main",
            "rasn_compiler_derive" => b.path == "asn1",
            _ => false,
        }
    })
}

fn load_audit(ctx: &mut Ctx, name: &str) -> Value {
    let p = ctx.verif.join("audit").join(name);
    match std::fs::read_to_string(&p).ok().and_then(|s| serde_json::from_str::<Value>(&s).ok()) {
        Some(v) => v,
        None => {
            ctx.fail_closed("C08.audit", &format!("audit table audit/{} missing or unreadable", name));
            json!({})
        }
    }
}

pub fn run(m: &Model, ctx: &mut Ctx, facts: &Facts) {
    ctx.explanation = "Static enumeration of every panic-capable MIR construct reachable from the public API of rasn_compiler (pub items and trait impls), \
the CLI main() and the asn1! macro: explicit panic!/todo!/unimplemented!/unreachable!/assert! calls, Option/Result unwrap/expect, Index/IndexMut (incl. range slicing), \
arithmetic Assert terminators (sub/neg/div/rem and non-usize add/mul overflow), RefCell borrows, process exit/abort and a curated list of documented-to-panic library callees. \
Callees are resolved with Instance::try_resolve; unresolved trait-method calls fan out to every impl; closures are attributed to their enclosing fn. \
Each (fn, shape) group is compared with audit/panic.json: a group or a count not in the table is a VIOLATION with a call chain from an entry point; \
groups marked `finding` are the known findings. Recursion classes (SCCs) and loops that are not iterator-driven are audited the same way (audit/recursion.json, audit/loops.json). \
This decides `no new unaudited panic/recursion/loop site`, the enumerated necessary condition of totality; it does not prove the audited-benign sites safe (each names the invariant it relies on) and says nothing about run time.".into();
    ctx.assumptions = vec![
        "rustc's MIR (mir-opt-level=0) represents every panic-capable operation of the source as a call or Assert terminator".into(),
        "library callees not in the curated list do not panic for the arguments the crate passes".into(),
        "audit entries of class `benign` are reviewer assertions; class `baseline` entries were present at the pinned commit and are not claimed safe".into(),
    ];
    ctx.rule("every (fn, panic-shape) group reachable from the API must be in audit/panic.json with count >= observed; every call-graph SCC in audit/recursion.json; every non-iterator loop in audit/loops.json");

    let roots = roots(facts);
    let (reach, pred) = facts.reachable(&roots);
    ctx.extra.insert("bodies_total".into(), json!(facts.bodies.len()));
    ctx.extra.insert("bodies_reachable".into(), json!(reach.len()));
    ctx.extra.insert("entry_points".into(), json!(roots.len()));
    ctx.floor("C08/bodies", facts.bodies.len(), 1000);
    ctx.floor("C08/entry-points", roots.len(), 40);
    for i in reach.iter().take(4000) {
        ctx.func(&facts.bodies[*i].path);
    }

    // ---------------- panic sites ----------------
    let (sites, auto) = collect_sites(facts, &reach);
    ctx.extra.insert("auto_discharged_usize_add_mul".into(), json!(auto));
    let mut groups: BTreeMap<String, Vec<&Site>> = BTreeMap::new();
    for s in &sites {
        groups.entry(format!("{}|{}|{}", s.owner, s.kind, s.shape)).or_default().push(s);
    }
    let kinds: BTreeMap<String, usize> = sites.iter().fold(BTreeMap::new(), |mut m, s| {
        *m.entry(s.kind.clone()).or_default() += 1;
        m
    });
    ctx.extra.insert("sites_by_kind".into(), json!(kinds));
    ctx.floor("C08.panic/sites", sites.len(), 50);
    ctx.floor("C08.panic/explicit", *kinds.get("explicit").unwrap_or(&0), 3);
    ctx.floor("C08.panic/unwrap", *kinds.get("unwrap").unwrap_or(&0), 10);

    // positive control: the classifier must recognise the canonical shapes
    for (callee, macros, want) in [
        ("core::panicking::panic", vec!["todo".to_string()], "explicit"),
        ("std::option::Option::<T>::unwrap", vec![], "unwrap"),
        ("core::str::traits::<impl std::ops::Index<I> for str>::index", vec![], "index"),
        ("std::cell::RefCell::<T>::borrow_mut", vec![], "refcell"),
    ] {
        match classify_call(callee, &macros) {
            Some((k, _)) if k == want => {}
            o => ctx.fail_closed("C08.panic", &format!("classifier self-check failed for {}: {:?}", callee, o)),
        }
    }

    if std::env::var("ASNLINT_DUMP_AUDIT").is_ok() {
        // development aid: print a fresh baseline table
        let mut tbl = serde_json::Map::new();
        for (k, v) in &groups {
            tbl.insert(k.clone(), json!({"count": v.len(), "class": "baseline", "reason": "", "lines": v.iter().map(|s| s.line).collect::<Vec<_>>()}));
        }
        println!("{}", serde_json::to_string_pretty(&Value::Object(tbl)).unwrap());
        return;
    }

    let audit = load_audit(ctx, "panic.json");
    let table = audit["groups"].as_object().cloned().unwrap_or_default();
    let mut stale = vec![];
    for (k, v) in &groups {
        let first = v[0];
        let lines: Vec<String> = v.iter().map(|s| s.line.to_string()).collect();
        ctx.oblige("C08.panic", k, true);
        match table.get(k) {
            None => {
                let chain = facts.chain(&pred, first.body);
                ctx.violate("C08.panic", &format!("unaudited:{}", k), &first.file, first.line,
                    &format!("panic-capable construct `{}` ({}) in `{}` at line(s) {} is not in the audit table; reachable via {}",
                        first.shape, first.kind, first.owner, lines.join(","), chain.join(" -> ")));
            }
            Some(e) => {
                let n = e["count"].as_u64().unwrap_or(0) as usize;
                let class = e["class"].as_str().unwrap_or("");
                if v.len() > n {
                    let chain = facts.chain(&pred, first.body);
                    ctx.violate("C08.panic", &format!("count:{}", k), &first.file, first.line,
                        &format!("`{}` has {} sites of shape `{}` ({}), the audit table covers {}: lines {}; reachable via {}",
                            first.owner, v.len(), first.shape, first.kind, n, lines.join(","), chain.join(" -> ")));
                }
                if class == "finding" {
                    ctx.violate("C08.panic", &format!("finding:{}", k), &first.file, first.line,
                        &format!("known panic: {} [{}]", e["reason"].as_str().unwrap_or(""), lines.join(",")));
                }
            }
        }
    }
    for k in table.keys() {
        if !groups.contains_key(k) {
            stale.push(k.clone());
        }
    }
    ctx.extra.insert("stale_audit_entries".into(), json!(stale));
    let classes: BTreeMap<String, usize> = table.values().fold(BTreeMap::new(), |mut m, e| {
        *m.entry(e["class"].as_str().unwrap_or("").to_string()).or_default() += 1;
        m
    });
    ctx.extra.insert("audit_classes".into(), json!(classes));
    for (k, v) in groups.iter().filter(|(k, _)| k.contains("|explicit|")).take(6) {
        ctx.sample(json!({"group": k, "count": v.len(), "lines": v.iter().map(|s| s.line).collect::<Vec<_>>(), "chain": facts.chain(&pred, v[0].body)}));
    }

    // ---------------- recursion classes ----------------
    let sccs = facts.sccs(&reach);
    let rec_audit = load_audit(ctx, "recursion.json");
    let rec_table = rec_audit["members"].as_object().cloned().unwrap_or_default();
    let mut scc_members = 0;
    for comp in &sccs {
        let mut names: Vec<String> = comp.iter().map(|i| format!("{}::{}", facts.bodies[*i].krate, owner_of(&facts.bodies[*i].path))).collect();
        names.sort();
        names.dedup();
        for n in &names {
            scc_members += 1;
            ctx.oblige("C08.rec", n, true);
            match rec_table.get(n) {
                None => {
                    let b = comp.iter().find(|i| format!("{}::{}", facts.bodies[**i].krate, owner_of(&facts.bodies[**i].path)) == *n).unwrap();
                    ctx.violate("C08.rec", &format!("unaudited-recursion:{}", n), &facts.bodies[*b].file, facts.bodies[*b].line,
                        &format!("`{}` is part of a recursive cycle ({} fns: {}) that is not in audit/recursion.json: unbounded recursion on input-controlled structure exhausts the stack",
                            n, names.len(), names.iter().take(6).cloned().collect::<Vec<_>>().join(", ")));
                }
                Some(e) => {
                    if e["class"].as_str() == Some("finding") {
                        let b = comp.iter().find(|i| format!("{}::{}", facts.bodies[**i].krate, owner_of(&facts.bodies[**i].path)) == *n).unwrap();
                        ctx.violate("C08.rec", &format!("finding:{}", n), &facts.bodies[*b].file, facts.bodies[*b].line,
                            &format!("known unbounded recursion: {}", e["reason"].as_str().unwrap_or("")));
                    }
                }
            }
        }
    }
    // C08.entry: a cycle whose depth is NOT bounded by a visited set or by input nesting (class baseline / finding:
    // reference chasers) is only as safe as the callers that hand it a reference; every caller from outside the
    // cycle is therefore part of the audit (`callers`), and a new way into such a cycle is reported.
    let name_of = |i: usize| format!("{}::{}", facts.bodies[i].krate, owner_of(&facts.bodies[i].path));
    let mut entry_edges = 0;
    let mut entry_dump = serde_json::Map::new();
    for comp in &sccs {
        let cset: BTreeSet<usize> = comp.iter().cloned().collect();
        let cnames: BTreeSet<String> = comp.iter().map(|i| name_of(*i)).collect();
        for n in &cnames {
            let Some(e) = rec_table.get(n) else { continue };
            let class = e["class"].as_str().unwrap_or("");
            if class != "baseline" && !(class == "finding" && e.get("callers").is_some()) {
                continue;
            }
            let mut callers: BTreeMap<String, usize> = BTreeMap::new();
            for j in reach.iter() {
                if cset.contains(j) || cnames.contains(&name_of(*j)) {
                    continue;
                }
                if facts.edges[*j].iter().any(|t| cset.contains(t) && name_of(*t) == *n) {
                    callers.entry(name_of(*j)).or_insert(*j);
                }
            }
            let allowed: BTreeSet<String> = e["callers"].as_array().map(|a| a.iter().filter_map(|x| x.as_str().map(String::from)).collect()).unwrap_or_default();
            entry_dump.insert(n.clone(), json!(callers.keys().collect::<Vec<_>>()));
            for (c, j) in &callers {
                entry_edges += 1;
                let ok = allowed.contains(c);
                ctx.oblige("C08.entry", &format!("{}<-{}", n, c), true);
                if !ok {
                    ctx.violate("C08.entry", &format!("new-entry:{}<-{}", n, c), &facts.bodies[*j].file, facts.bodies[*j].line,
                        &format!("`{}` now calls `{}`, a recursion over references with no visited set / depth bound (audit class {}): a reference cycle in the input reaching this call recurses until the stack is exhausted; the audited callers are [{}]",
                            c, n, class, allowed.iter().cloned().collect::<Vec<_>>().join(", ")));
                }
            }
        }
    }
    ctx.extra.insert("unbounded_cycle_entry_edges".into(), json!(entry_edges));
    if std::env::var("ASNLINT_DUMP_ENTRY").is_ok() {
        println!("{}", serde_json::to_string_pretty(&Value::Object(entry_dump)).unwrap());
    }
    ctx.extra.insert("recursive_cycles".into(), json!(sccs.len()));
    ctx.extra.insert("recursive_fns".into(), json!(scc_members));
    if std::env::var("ASNLINT_DUMP_REC").is_ok() {
        let mut tbl = serde_json::Map::new();
        for (ci, comp) in sccs.iter().enumerate() {
            let mut names: Vec<String> = comp.iter().map(|i| format!("{}::{}", facts.bodies[*i].krate, owner_of(&facts.bodies[*i].path))).collect();
            names.sort();
            names.dedup();
            for n in names {
                tbl.insert(n, json!({"class": "baseline", "cycle": ci, "reason": ""}));
            }
        }
        println!("{}", serde_json::to_string_pretty(&Value::Object(tbl)).unwrap());
    }

    // ---------------- loops (syntactic) ----------------
    loops(m, ctx);
    withdraw(m, ctx);
    dead_guard(m, ctx);
    oid_arcs_invariant(m, ctx);
    // the audit entry of union_single_and_range's `chars.get(&i).unwrap()` relies on tables keyed by position
    crate::rules::c15::charset_keys(m, ctx, "C08.charset");
    // the audit entry of inner_name's format_ident! ("parent is a generated type name") is tied to the one caller that builds
    // the parent from a string it splits itself
    crate::rules::c07::nested_choice_ident(m, ctx, "C08.ident");
    // the audit entries of the generators' format_ident! calls rely on member names made of identifier characters: the one
    // name the lexer *builds* (the synthetic member of a [[ ]] group) is evaluated for every kind of first component (= C05.group)
    crate::rules::c05::group_names(m, ctx, "C08.groupname");
    acyclic(m, ctx);
    slice_totality(m, ctx);
    minmax_guard(m, ctx);
    value_cycle(m, ctx);
    template_cycle(m, ctx);
    float_tokens(m, ctx);
    object_cycle(m, ctx);
    input_sized_ranges(m, ctx);
    // the generators treat notations the linker expands (selection types, COMPONENTS OF) as unreachable!(): the order of
    // the linking steps is what guarantees that none survives (shared with C09.order)
    crate::rules::c09::order(m, ctx, "C08.order");
    filter_converter(m, ctx);
}

/// C08.refchain: a value assignment may be a reference to another one (`a T ::= b`), and link_with_type replaces the
/// reference by the referenced value and links again. On `b T ::= c  c T ::= b` that chase has no end unless the chain is
/// followed with a visited list. link_with_type is evaluated as a whole (its own recursion followed through the crate's
/// code, twelve levels at most) on such a cycle for each kind of governor: it must return — Ok or Err — within the bound.
fn value_cycle(m: &Model, ctx: &mut Ctx) {
    use crate::eval::{Env, Evaluator, Val};
    use crate::rules::util::{const_resolver, inline_all};
    use std::collections::BTreeMap as Map;
    let Some(f) = m.fns.iter().find(|f| f.name == "link_with_type" && f.self_ty.as_deref() == Some("ASN1Value")) else {
        ctx.fail_closed("C08.refchain", "anchor not found: ASN1Value::link_with_type");
        return;
    };
    ctx.func(&f.key);
    let consts = const_resolver(m);
    let named = |n: &str, fields: Vec<(&str, Val)>| Val::Ctor(n.to_string(), vec![], fields.into_iter().map(|(k, v)| (k.to_string(), v)).collect::<Map<_, _>>());
    let reference = |to: &str| named("ElsewhereDeclaredValue", vec![("identifier", Val::Str(to.into())), ("parent", Val::none()), ("module", Val::none())]);
    let value_tld = |n: &str, to: &str| Val::Ctor("Value".into(), vec![named("ToplevelValueDefinition", vec![("name", Val::Str(n.into())), ("associated_type", Val::Ctor("ElsewhereDeclaredType".into(), vec![named("DeclarationElsewhere", vec![("identifier", Val::Str("U".into())), ("parent", Val::none()), ("module", Val::none())])], Map::new())), ("value", reference(to))])], Map::new());
    let int_ty = Val::Ctor("Integer".into(), vec![named("Integer", vec![("distinguished_values", Val::none()), ("constraints", Val::List(vec![]))])], Map::new());
    let type_tld = |n: &str, ty: Val| Val::Ctor("Type".into(), vec![named("ToplevelTypeDefinition", vec![("name", Val::Str(n.into())), ("ty", ty)])], Map::new());
    let self_ref = |n: &str| Val::Ctor("ElsewhereDeclaredType".into(), vec![named("DeclarationElsewhere", vec![("identifier", Val::Str(n.into())), ("parent", Val::none()), ("module", Val::none()), ("constraints", Val::List(vec![]))])], Map::new());
    // `S ::= S` is what the scope of a template holds when the actual parameter is named like the dummy reference (`Foo {S}`
    // for `Foo {S} ::= ..`): module-level cycles are removed before linking, this one is made afterwards
    let x_value = Val::Ctor("Value".into(), vec![named("ToplevelValueDefinition", vec![("name", Val::Str("x".into())), ("associated_type", self_ref("S")), ("value", Val::Ctor("Integer".into(), vec![Val::int(5)], Map::new()))])], Map::new());
    // the same references written with a module qualifier (`q U ::= M.q`, `qb U ::= M.qc  qc U ::= M.qb`): a visited list that
    // only follows unqualified references hands the qualified one back, and the caller substitutes it for ever
    let qualified = |to: &str| named("ElsewhereDeclaredValue", vec![("identifier", Val::Str(to.into())), ("parent", Val::none()), ("module", Val::some(Val::Str("M".into())))]);
    let qvalue_tld = |n: &str, to: &str| Val::Ctor("Value".into(), vec![named("ToplevelValueDefinition", vec![("name", Val::Str(n.into())), ("associated_type", Val::Ctor("ElsewhereDeclaredType".into(), vec![named("DeclarationElsewhere", vec![("identifier", Val::Str("U".into())), ("parent", Val::none()), ("module", Val::none())])], Map::new())), ("value", qualified(to))])], Map::new());
    let defs: Vec<(&str, Val)> = vec![("T", type_tld("T", int_ty.clone())), ("U", type_tld("U", int_ty.clone())), ("b", value_tld("b", "c")), ("c", value_tld("c", "b")), ("S", type_tld("S", self_ref("S"))), ("x", x_value),
        ("q", qvalue_tld("q", "q")), ("qb", qvalue_tld("qb", "qc")), ("qc", qvalue_tld("qc", "qb"))];
    let depth = std::cell::Cell::new(0usize);
    let hook = |_: &Evaluator, name: &str, a: &[Val]| -> Option<Result<Val, String>> {
        match (name, a.first()) {
            (".iter", Some(Val::Opaque(s))) if s == "tlds" => Some(Ok(Val::List(defs.iter().map(|(n, t)| Val::Tuple(vec![Val::Str(n.to_string()), t.clone()])).collect()))),
            (".values", Some(Val::Opaque(s))) if s == "tlds" => Some(Ok(Val::List(defs.iter().map(|(_, t)| t.clone()).collect()))),
            (".get", Some(Val::Opaque(s))) if s == "tlds" => match a.get(1) {
                Some(Val::Str(k)) => Some(Ok(defs.iter().find(|(n, _)| n == k).map(|(_, v)| Val::some(v.clone())).unwrap_or(Val::none()))),
                _ => Some(Err("tlds.get with a key that is not a name".into())),
            },
            (".link_with_type", _) | ("Self::link_enum_or_distinguished", _) | ("ASN1Value::link_enum_or_distinguished", _) => {
                depth.set(depth.get() + 1);
                if depth.get() > 12 {
                    Some(Err("$unbounded".into()))
                } else {
                    None // followed through the crate's own code
                }
            }
            (".int_type", _) => Some(Ok(Val::Sym("INT".into()))),
            (".is_const_type", _) => Some(Ok(Val::Bool(false))),
            // Box<ASN1Value> -> &mut ASN1Value
            (".borrow_mut", Some(v)) | (".borrow", Some(v)) if a.len() == 1 && matches!(v, Val::Ctor(..)) => Some(Ok(v.clone())),
            (".as_str", Some(Val::Ctor(n, p, _))) if n == "ElsewhereDeclaredType" => Some(Ok(p.first().and_then(|d| match d { Val::Ctor(_, _, f) => f.get("identifier").cloned(), _ => None }).unwrap_or(Val::Str("?".into())))),
            ("grammar_error!", _) => Some(Ok(Val::Sym("GrammarError".into()))),
            _ => None,
        }
    };
    let inl = inline_all(m, &["ASN1Value", "ToplevelDefinition"]);
    let ev = Evaluator { consts: &consts, call_hook: &hook, inline: Some(&inl) };
    let params: Vec<String> = f.sig.inputs.iter().filter_map(|a| match a { syn::FnArg::Typed(t) => Some(tok(&t.pat)), _ => None }).collect();
    let governors: Vec<(&str, Val, Val)> = vec![
        ("BOOLEAN", Val::Ctor("Boolean".into(), vec![Val::Opaque("boolean".into())], Map::new()), Val::none()),
        ("INTEGER", int_ty.clone(), Val::none()),
        ("ENUMERATED", Val::Ctor("Enumerated".into(), vec![Val::Opaque("enumerated".into())], Map::new()), Val::some(Val::Str("E".into()))),
        ("type-reference", Val::Ctor("ElsewhereDeclaredType".into(), vec![named("DeclarationElsewhere", vec![("identifier", Val::Str("T".into())), ("parent", Val::none()), ("module", Val::none())])], Map::new()), Val::none()),
    ];
    let scenarios: Vec<(&str, Val, Val, Val)> = governors.into_iter().map(|(l, t, n)| (l, t, n, reference("b"))).chain(vec![
        ("scope-self-reference:value-reference", self_ref("S"), Val::none(), reference("x")),
        ("scope-self-reference:literal", self_ref("S"), Val::none(), Val::Ctor("Integer".into(), vec![Val::int(5)], Map::new())),
        ("qualified-self-reference (q U ::= M.q, f T DEFAULT q)", Val::Ctor("ElsewhereDeclaredType".into(), vec![named("DeclarationElsewhere", vec![("identifier", Val::Str("T".into())), ("parent", Val::none()), ("module", Val::none())])], Map::new()), Val::none(), reference("q")),
        ("qualified-cycle (qb U ::= M.qc, qc U ::= M.qb, f T DEFAULT qb)", Val::Ctor("ElsewhereDeclaredType".into(), vec![named("DeclarationElsewhere", vec![("identifier", Val::Str("T".into())), ("parent", Val::none()), ("module", Val::none())])], Map::new()), Val::none(), reference("qb")),
    ]).collect();
    for (label, ty, type_name, value) in scenarios {
        let key = format!("cyclic-value-references:{}", label);
        ctx.oblige("C08.refchain", &key, true);
        depth.set(0);
        let mut env = Env::new();
        env.insert("self".into(), value);
        env.insert(params.first().cloned().unwrap_or("tlds".into()), Val::Opaque("tlds".into()));
        env.insert(params.get(1).cloned().unwrap_or("ty".into()), ty);
        env.insert(params.get(2).cloned().unwrap_or("type_name".into()), type_name);
        // four definitions: no loop over them needs more than a few rounds
        crate::eval::WHILE_BOUND.with(|b| b.set(64));
        let r = ev.eval_fn_body(&f.block, &mut env);
        crate::eval::WHILE_BOUND.with(|b| b.set(10_000));
        match r {
            Ok(_) => {}
            Err(e) if e.contains("while loop did not terminate") => ctx.violate("C08.refchain", &key, &f.file, f.line,
                &format!("`a T ::= b  b U ::= c  c U ::= b` with a {} governor: a loop that follows the value references is still running after 64 rounds over 4 definitions — a chain that leads back into itself is not detected, so this input hangs the compiler", label)),
            Err(e) if e.contains("$unbounded") && label.starts_with("scope-self-reference") => ctx.violate("C08.refchain", &key, &f.file, f.line,
                &format!("a value governed by `S` where the scope holds `S ::= S` (`Foo {{S}} ::= SEQUENCE {{ a S DEFAULT .. }}  Bar ::= Foo {{S}}`), {}: link_with_type / link_enum_or_distinguished are still following the reference after 12 rounds — a type that refers to itself inside a template scope overflows the stack", label)),
            Err(e) if e.contains("$unbounded") => ctx.violate("C08.refchain", &key, &f.file, f.line,
                &format!("`a T ::= b  b U ::= c  c U ::= b` with a {} governor: link_with_type is still substituting references after 12 rounds — the chain of value references is followed without a visited list, so this input overflows the stack", label)),
            Err(e) => ctx.fail_closed("C08.refchain", &format!("[{}]: {}", key, e)),
        }
    }
}

/// C08.arcs: the generators' `unreachable!("Lexer only parses OID arcs with at least a name or a numeral!")` is audited benign on
/// the strength of that invariant. The lexer keeps it; the linker must keep it too: the arm of link_with_type that re-reads a
/// `{ x 9 y }`-shaped OBJECT IDENTIFIER value as a SEQUENCE / SET (OF) value *consumes* the arc names, and when a later pair is
/// malformed the definition is kept with a warning — whatever value is left behind reaches the generators. The arm is
/// evaluated (link_with_type whole) on `{ x 9 y }`: afterwards every arc the value still holds has a name or a number.
fn oid_arcs_invariant(m: &Model, ctx: &mut Ctx) {
    use crate::eval::{Env, Evaluator, Val};
    use crate::rules::util::{const_resolver, inline_all};
    use std::collections::BTreeMap as Map;
    let rule = "C08.arcs";
    let Some(f) = m.fns.iter().find(|f| f.name == "link_with_type" && f.self_ty.as_deref() == Some("ASN1Value")) else {
        ctx.fail_closed(rule, "anchor not found: ASN1Value::link_with_type");
        return;
    };
    let consts = const_resolver(m);
    let mut inl = inline_all(m, &["ASN1Value"]);
    inl.retain(|k, _| !k.starts_with('.') || k == ".link_with_type");
    let depth = std::cell::Cell::new(0usize);
    let hook = |_: &Evaluator, name: &str, a: &[Val]| -> Option<Result<Val, String>> {
        match (name, a.first()) {
            (".link_with_type", _) => {
                depth.set(depth.get() + 1);
                if depth.get() > 6 { Some(Err("link_with_type does not return".into())) } else { None }
            }
            ("Self::link_struct_like", _) | ("Self::link_array_like", _) | ("ASN1Value::link_struct_like", _) | ("ASN1Value::link_array_like", _) => Some(Ok(Val::Ctor("Ok".into(), vec![Val::Sym("LINKED".into())], Map::new()))),
            (".try_into", Some(Val::Int { .. })) | ("<u128 as TryInto<i128>>::try_into", Some(Val::Int { .. })) => Some(Ok(Val::Ctor("Ok".into(), vec![a[0].clone()], Map::new()))),
            (".borrow_mut", Some(v)) | (".borrow", Some(v)) if a.len() == 1 && matches!(v, Val::Ctor(..)) => Some(Ok(v.clone())),
            ("grammar_error!", _) => Some(Ok(Val::Sym("GrammarError".into()))),
            ("Box::new", Some(v)) => Some(Ok(v.clone())),
            _ => None,
        }
    };
    let ev = Evaluator { consts: &consts, call_hook: &hook, inline: Some(&inl) };
    let params: Vec<String> = f.sig.inputs.iter().filter_map(|a| match a { syn::FnArg::Typed(t) => Some(tok(&t.pat)), _ => None }).collect();
    let named = |n: &str, fields: Vec<(&str, Val)>| Val::Ctor(n.to_string(), vec![], fields.into_iter().map(|(k, v)| (k.to_string(), v)).collect::<Map<_, _>>());
    let arc = |name: Option<&str>, number: Option<i128>| named("ObjectIdentifierArc", vec![("name", name.map(|n| Val::some(Val::Str(n.into()))).unwrap_or(Val::none())), ("number", number.map(|n| Val::some(Val::int(n))).unwrap_or(Val::none()))]);
    let seq_ty = Val::Ctor("Sequence".into(), vec![Val::Opaque("members".into())], Map::new());
    for (label, arcs) in [("{ x 9 y }", vec![arc(Some("x"), None), arc(None, Some(9)), arc(Some("y"), None)]), ("{ x 9 y z }", vec![arc(Some("x"), None), arc(None, Some(9)), arc(Some("y"), None), arc(Some("z"), None)])] {
        let key = format!("oid-as-struct:{}", label.replace(' ', ""));
        ctx.oblige(rule, &key, true);
        depth.set(0);
        let value = Val::Ctor("ObjectIdentifier".into(), vec![Val::Ctor("ObjectIdentifierValue".into(), vec![Val::List(arcs)], Map::new())], Map::new());
        let mut env = Env::new();
        env.insert("self".into(), value);
        env.insert(params.first().cloned().unwrap_or("tlds".into()), crate::eval::new_map());
        env.insert(params.get(1).cloned().unwrap_or("ty".into()), seq_ty.clone());
        env.insert(params.get(2).cloned().unwrap_or("type_name".into()), Val::some(Val::Str("Seq".into())));
        match ev.eval_fn_body(&f.block, &mut env) {
            Ok(r) => {
                // whatever the outcome: the arcs of an OBJECT IDENTIFIER value that is still there
                fn arcs_of(v: &Val, out: &mut Vec<Val>) {
                    match v {
                        Val::Ctor(n, _, _) if n == "ObjectIdentifierArc" => out.push(v.clone()),
                        Val::Ctor(_, p, f) => { p.iter().for_each(|x| arcs_of(x, out)); f.values().for_each(|x| arcs_of(x, out)); }
                        Val::List(l) | Val::Tuple(l) => l.iter().for_each(|x| arcs_of(x, out)),
                        _ => {}
                    }
                }
                let mut left = vec![];
                if let Some(v) = env.get("self") { arcs_of(v, &mut left); }
                let bad: Vec<String> = left.iter().filter(|a| match a { Val::Ctor(_, _, fl) => fl.get("name") == Some(&Val::none()) && fl.get("number") == Some(&Val::none()), _ => false }).map(|a| a.show()).collect();
                if !bad.is_empty() {
                    ctx.violate(rule, "oid-as-struct:arc-without-name-and-number", &f.file, f.line,
                        &format!("`v Seq ::= {}` (first pair well formed, a later one not): link_with_type returns {} and leaves an OBJECT IDENTIFIER value with {} arc(s) that have neither a name nor a number — the definition is kept with a warning, and format_oid reaches `unreachable!(\"Lexer only parses OID arcs with at least a name or a numeral!\")`: a panic where an Err or a warning is due", label, match &r { Val::Ctor(n, _, _) => n.clone(), o => o.show() }, bad.len()));
                }
            }
            Err(e) => ctx.fail_closed(rule, &format!("[{}]: {}", key, e)),
        }
    }
}

/// C08.template: a parameterized type may instantiate itself (`List {T} ::= SEQUENCE { head T, tail List {T} OPTIONAL }`) or
/// do so by way of another template. resolve_parameters expands an instantiation in place and then links the copy, which
/// expands the instantiations inside it: without a guard that never ends. resolve_parameters is evaluated on `L {INTEGER}` for
/// `L {T} ::= SEQUENCE { tail L {T} }`, its recursion through link_constraint_reference followed through the crate's own code:
/// it must return — Ok or Err — within eight nested expansions.
fn template_cycle(m: &Model, ctx: &mut Ctx) {
    use crate::eval::{Env, Evaluator, Val};
    use crate::rules::util::{const_resolver, inline_all};
    use std::collections::BTreeMap as Map;
    let Some(f) = m.fns.iter().find(|f| f.name == "resolve_parameters" && f.self_ty.as_deref() == Some("ASN1Type")) else {
        ctx.fail_closed("C08.template", "anchor not found: ASN1Type::resolve_parameters");
        return;
    };
    ctx.func(&f.key);
    ctx.oblige("C08.template", "self-instantiating-template", true);
    let consts = const_resolver(m);
    let named = |n: &str, fields: Vec<(&str, Val)>| Val::Ctor(n.to_string(), vec![], fields.into_iter().map(|(k, v)| (k.to_string(), v)).collect::<Map<_, _>>());
    let args = Val::List(vec![Val::Ctor("TypeParameter".into(), vec![Val::Sym("INTEGER".into())], Map::new())]);
    let instantiation = Val::Ctor("ElsewhereDeclaredType".into(), vec![named("DeclarationElsewhere", vec![
        ("identifier", Val::Str("L".into())), ("parent", Val::none()), ("module", Val::none()),
        ("constraints", Val::List(vec![Val::Ctor("Parameter".into(), vec![args.clone()], Map::new())])),
    ])], Map::new());
    let member = named("SequenceOrSetMember", vec![("name", Val::Str("tail".into())), ("ty", instantiation), ("constraints", Val::List(vec![]))]);
    let template_ty = Val::Ctor("Sequence".into(), vec![named("SequenceOrSet", vec![("members", Val::List(vec![member])), ("constraints", Val::List(vec![])), ("components_of", Val::List(vec![])), ("extensible", Val::none())])], Map::new());
    let parameters = Val::List(vec![named("ParameterizationArgument", vec![("dummy_reference", Val::Str("T".into())), ("param_governor", Val::ctor("None"))])]);
    let template = Val::Ctor("Type".into(), vec![named("ToplevelTypeDefinition", vec![("name", Val::Str("L".into())), ("ty", template_ty), ("parameterization", Val::some(named("Parameterization", vec![("parameters", parameters)])))])], Map::new());
    let tlds = crate::eval::map_insert(crate::eval::new_map(), Val::Str("L".into()), template);
    let depth = std::cell::Cell::new(0usize);
    let hook = |_: &Evaluator, name: &str, a: &[Val]| -> Option<Result<Val, String>> {
        match name {
            "Self::resolve_parameters" | "ASN1Type::resolve_parameters" => {
                depth.set(depth.get() + 1);
                if depth.get() > 8 { Some(Err("$unbounded".into())) } else { None }
            }
            ".link_elsewhere_declared" | ".collect_supertypes" | ".link_cross_reference" | ".reassign_table_constraint" => Some(Ok(Val::Ctor("Ok".into(), vec![Val::Unit], Map::new()))),
            ".constraints" | ".constraints_mut" => match a.first() {
                Some(Val::Ctor(_, _, f)) if f.contains_key("constraints") => Some(Ok(f["constraints"].clone())),
                _ => None,
            },
            "ToplevelTypeDefinition::from" | "ToplevelValueDefinition::from" | "ToplevelInformationDefinition::from" => Some(Ok(Val::Sym("<definition of the argument>".into()))),
            "grammar_error!" => Some(Ok(Val::Sym("GrammarError".into()))),
            _ => None,
        }
    };
    let inl = inline_all(m, &["ASN1Type"]);
    let ev = Evaluator { consts: &consts, call_hook: &hook, inline: Some(&inl) };
    let params: Vec<String> = f.sig.inputs.iter().filter_map(|a| match a { syn::FnArg::Typed(t) => Some(tok(&t.pat)), _ => None }).collect();
    if params.len() != 4 {
        ctx.fail_closed("C08.template", "resolve_parameters: expected (identifier, parent, definitions, arguments)");
        return;
    }
    let mut env = Env::new();
    env.insert(params[0].clone(), Val::Str("L".into()));
    env.insert(params[1].clone(), Val::none());
    env.insert(params[2].clone(), tlds);
    env.insert(params[3].clone(), args);
    match ev.eval_fn_body(&f.block, &mut env) {
        Ok(Val::Ctor(n, _, _)) if n == "Ok" || n == "Err" => {}
        Ok(o) => ctx.fail_closed("C08.template", &format!("[self-instantiating template]: result {}", o.show().chars().take(120).collect::<String>())),
        Err(e) if e.contains("$unbounded") => ctx.violate("C08.template", "self-instantiating-template", &f.file, f.line,
            "`L {T} ::= SEQUENCE { tail L {T} }  X ::= L {INTEGER}`: resolve_parameters is still expanding L inside its own expansion after 8 rounds — a template that instantiates itself is expanded without end (stack overflow)"),
        Err(e) => ctx.fail_closed("C08.template", &format!("[self-instantiating template]: {}", e)),
    }
}

/// C08.float: `quote`'s ToTokens for f64 goes through proc_macro2::Literal::f64_*, which panics on a value that is not
/// finite. A REAL value reaches the generators as the f64 the lexer produced — `1e999`, a literal of 400 digits and
/// `{mantissa 1, base 10, exponent 400}` all parse to infinity — so every arm of the rasn generator that binds the payload of
/// ASN1Value::Real and turns it into tokens must test `is_finite()` first (arm guard or an `if` around the conversion).
fn float_tokens(m: &Model, ctx: &mut Ctx) {
    let mut sites = 0;
    for f in m.fns.iter().filter(|f| f.krate == "rasn-compiler" && f.module.starts_with("generator::rasn") && !f.module.contains("tests")) {
        for mt in model::matches_in(&f.block) {
            for arm in &mt.arms {
                let pat = tok(&arm.pat);
                let Some(i) = pat.find("ASN1Value::Real(") else { continue };
                let var: String = pat[i + "ASN1Value::Real(".len()..].chars().take_while(|c| c.is_alphanumeric() || *c == '_').collect();
                if var.is_empty() || var == "_" {
                    continue;
                }
                let body = tok(&arm.body);
                let tokenised = [format!("{}.to_token_stream()", var), format!("{}.to_tokens(", var), format!("#{}", var), format!("f64_unsuffixed(*{}", var), format!("f64_suffixed(*{}", var)].iter().any(|n| body.contains(n.as_str()));
                if !tokenised {
                    continue;
                }
                sites += 1;
                ctx.func(&f.key);
                ctx.oblige("C08.float", &format!("{}:{}", f.name, var), true);
                let guard = arm.guard.as_ref().map(|(_, g)| tok(g)).unwrap_or_default();
                let test = format!("{}.is_finite()", var);
                // the arm guard, evaluated for a value that is not finite, must keep the value out of this arm
                let guard_excludes = arm.guard.as_ref().map(|(_, g)| {
                    use crate::eval::{Env, Evaluator, Val};
                    let consts = crate::rules::util::const_resolver(m);
                    let hook = |_: &Evaluator, name: &str, _: &[Val]| -> Option<Result<Val, String>> { if name == ".is_finite" { Some(Ok(Val::Bool(false))) } else if name == ".is_infinite" || name == ".is_nan" { Some(Ok(Val::Bool(true))) } else { None } };
                    let ev = Evaluator { consts: &consts, call_hook: &hook, inline: None };
                    let mut env = Env::new();
                    env.insert(var.clone(), Val::Sym("inf".into()));
                    matches!(ev.eval(g, &mut env), Ok(Val::Bool(false)))
                }).unwrap_or(false);
                let _ = &guard;
                if !(guard_excludes || body.contains(&format!("if{}", test)) || body.contains(&format!("if!{}", test))) {
                    ctx.violate("C08.float", &format!("unguarded:{}", f.name), &f.file, crate::rules::util::span_line(arm),
                        &format!("{} turns the REAL value `{}` into tokens without testing `{}.is_finite()`: a literal beyond the range of f64 (`1e999`, 400 digits, {{mantissa 1, base 10, exponent 400}}) is parsed to infinity, and ToTokens for a non-finite f64 panics", f.name, var, var));
                }
            }
        }
    }
    ctx.floor("C08.float/sites", sites, 1);
}

/// C08.objcycle: an information object may be written as a reference to another object (`a CLS ::= { b }`); collect_supertypes
/// resolves such an object by cloning the referenced one and resolving *that*. On `b CLS ::= { c }  c CLS ::= { b }` this has
/// no end unless the chain is cut. ToplevelInformationDefinition::collect_supertypes is evaluated (resolve_and_link and its own
/// recursion followed through the crate's code) on such a circle: it must return — Ok or Err — within eight nested
/// resolutions.
fn object_cycle(m: &Model, ctx: &mut Ctx) {
    use crate::eval::{Env, Evaluator, Val};
    use crate::rules::util::{const_resolver, inline_all};
    use std::collections::BTreeMap as Map;
    let Some(f) = m.fns.iter().find(|f| f.name == "collect_supertypes" && f.self_ty.as_deref() == Some("ToplevelInformationDefinition")) else {
        ctx.fail_closed("C08.objcycle", "anchor not found: ToplevelInformationDefinition::collect_supertypes");
        return;
    };
    ctx.func(&f.key);
    ctx.oblige("C08.objcycle", "circular-object-references", true);
    let consts = const_resolver(m);
    let named = |n: &str, fields: Vec<(&str, Val)>| Val::Ctor(n.to_string(), vec![], fields.into_iter().map(|(k, v)| (k.to_string(), v)).collect::<Map<_, _>>());
    let class = Val::Ctor("ByReference".into(), vec![named("ObjectClassDefn", vec![("fields", Val::List(vec![])), ("syntax", Val::none())])], Map::new());
    let object = |name: &str, refers_to: &str| named("ToplevelInformationDefinition", vec![
        ("name", Val::Str(name.into())),
        ("class", class.clone()),
        ("value", Val::Ctor("Object".into(), vec![named("InformationObject", vec![
            ("class_name", Val::Str("CLS".into())),
            ("fields", Val::Ctor("CustomSyntax".into(), vec![Val::List(vec![Val::Ctor("ObjectReference".into(), vec![Val::Str(refers_to.into())], Map::new())])], Map::new())),
        ])], Map::new())),
    ]);
    let mut tlds = crate::eval::new_map();
    for (n, r) in [("b", "c"), ("c", "b")] {
        tlds = crate::eval::map_insert(tlds, Val::Str(n.into()), Val::Ctor("Object".into(), vec![object(n, r)], Map::new()));
    }
    let depth = std::cell::Cell::new(0usize);
    let hook = |_: &Evaluator, name: &str, a: &[Val]| -> Option<Result<Val, String>> {
        match name {
            // a bare reference never matches the class's WITH SYNTAX
            "resolve_custom_syntax" => Some(Ok(Val::Ctor("Err".into(), vec![named("GrammarError", vec![("kind", Val::ctor("SyntaxMismatch")), ("details", Val::Str("mismatch".into()))])], Map::new()))),
            "link_object_fields" => Some(Ok(Val::Ctor("Ok".into(), vec![Val::Unit], Map::new()))),
            "SyntaxApplication::as_str_or_none" | ".as_str_or_none" => Some(Ok(match a.first() { Some(Val::Ctor(n, p, _)) if n == "ObjectReference" => Val::some(p[0].clone()), _ => Val::none() })),
            ".resolve_class_reference" => Some(Ok(a[0].clone())),
            ".collect_supertypes" => {
                depth.set(depth.get() + 1);
                if depth.get() > 8 { Some(Err("$unbounded".into())) } else { None }
            }
            _ => None,
        }
    };
    let inl = inline_all(m, &["ToplevelInformationDefinition"]);
    let ev = Evaluator { consts: &consts, call_hook: &hook, inline: Some(&inl) };
    let tl = f.sig.inputs.iter().filter_map(|a| match a { syn::FnArg::Typed(t) => Some(tok(&t.pat)), _ => None }).next().unwrap_or("tlds".into());
    let mut env = Env::new();
    env.insert("self".into(), object("a", "b"));
    env.insert(tl, tlds);
    match ev.eval_fn_body(&f.block, &mut env) {
        Ok(Val::Ctor(n, _, _)) if n == "Ok" || n == "Err" => {}
        Ok(o) => ctx.fail_closed("C08.objcycle", &format!("[circular objects]: result {}", o.show().chars().take(120).collect::<String>())),
        Err(e) if e.contains("$unbounded") => ctx.violate("C08.objcycle", "circular-object-references", &f.file, f.line,
            "`a CLS ::= { b }  b CLS ::= { c }  c CLS ::= { b }`: collect_supertypes is still resolving referenced objects inside one another after 8 rounds — objects that refer to each other in a circle are resolved without end (stack overflow)"),
        Err(e) => ctx.fail_closed("C08.objcycle", &format!("[circular objects]: {}", e)),
    }
}

/// C08.alloc: a collection must not be sized by a number written in the input. Every numeric range that is iterated
/// (`(a..=b).map(..)`, `for i in a..b`) in the crate's own code is classified by its upper end: a literal, a constant or a
/// length of existing data is bounded by the data; an upper end that is a parameter or local of the function is
/// *input-sized* unless the function tests it against a constant bound first (`if !(0..=MAX).contains(&n) { return Err }`,
/// `if n > MAX { .. Err }`) or the site is audited in audit/ranges.json with the argument that bounds it.
fn input_sized_ranges(m: &Model, ctx: &mut Ctx) {
    let audit: Value = std::fs::read_to_string(ctx.verif.join("audit/ranges.json")).ok().and_then(|s| serde_json::from_str(&s).ok()).unwrap_or(json!({"sites": {}}));
    struct C { ranges: Vec<syn::ExprRange>, not_iterated: Vec<String> }
    impl model::DeepCb for C {
        fn expr(&mut self, e: &syn::Expr) {
            match e {
                syn::Expr::Range(r) if r.end.is_some() => self.ranges.push(r.clone()),
                // slicing and membership tests do not iterate
                syn::Expr::Index(i) => self.not_iterated.push(tok(&i.index)),
                syn::Expr::MethodCall(mc) if mc.method == "contains" || mc.method == "get" || mc.method == "slice" => {
                    let mut r = &*mc.receiver;
                    while let syn::Expr::Paren(p) = r { r = &p.expr; }
                    self.not_iterated.push(tok(r));
                    for a in mc.args.iter() {
                        self.not_iterated.push(tok(a));
                    }
                }
                _ => {}
            }
        }
    }
    let mut sites = 0;
    for f in m.fns.iter().filter(|f| f.krate == "rasn-compiler" && !f.module.contains("tests")) {
        let mut c = C { ranges: vec![], not_iterated: vec![] };
        model::deep_walk_block(&f.block, &mut c);
        for r in &c.ranges {
            let whole = tok(r);
            if c.not_iterated.iter().any(|n| n == &whole) {
                continue;
            }
            let end = tok(r.end.as_ref().unwrap());
            // bounded by a literal, a constant, a char/u8/u16 cast of one, or the length of something that exists
            let is_const = |t: &str| t.chars().all(|ch| ch.is_ascii_digit() || ch == '_' || ch.is_ascii_uppercase() || ch == ':' ) || t.contains("::MAX") || t.contains("::MIN") || t.starts_with("0x") || (t.chars().next().map(|ch| ch.is_ascii_digit()).unwrap_or(false));
            if is_const(&end) || end.contains(".len()") || end.contains("len") || end.contains("count") {
                continue;
            }
            sites += 1;
            let key = format!("{}|{}", f.key, whole);
            ctx.func(&f.key);
            ctx.oblige("C08.alloc", &key, true);
            if audit["sites"].get(&key).and_then(|v| v.get("reason")).and_then(|r| r.as_str()).map(|r| !r.is_empty()).unwrap_or(false) {
                continue;
            }
            // a test of the upper end against a constant bound ahead of the range, in the same function
            let b = tok(&f.block);
            let base: String = end.trim_start_matches('*').chars().take_while(|ch| ch.is_alphanumeric() || *ch == '_').collect();
            let pos = b.find(&whole).unwrap_or(0);
            let before = &b[..pos];
            let guarded = !base.is_empty() && (before.contains(&format!(".contains(&{})", base)) || before.contains(&format!("{}>", base)) || before.contains(&format!("{}>=", base)) || before.contains(&format!("::try_from({})", base))) && (before.contains("Err(") || before.contains("returnErr") || before.contains("?"));
            if !guarded {
                ctx.violate("C08.alloc", &format!("input-sized:{}", key), &f.file, crate::rules::util::span_line(r),
                    &format!("`{}` in {} is iterated up to `{}`, a number the function is given, without a test against a constant bound: a definition that writes a huge number there (a named bit `a(99999999999999999999)`) makes the compiler allocate that much — capacity overflow panic or memory exhaustion", whole, f.key, end));
            }
        }
    }
    ctx.floor("C08.alloc/ranges-examined", sites, 1);
}

/// C08.guard: ASN1Value::min / max compare two character-range bounds by their position in a string type's alphabet; they are
/// reached with whatever strings the source wrote as bounds (`FROM ("".."z")`, `"ab".."c"`, a multi-byte bound). min_max is
/// evaluated on empty, single, multi-character and multi-byte strings in both positions: every combination returns Ok or Err —
/// an `unwrap()` on a missing first character is a panic on malformed notation.
fn minmax_guard(m: &Model, ctx: &mut Ctx) {
    use crate::eval::{Env, Evaluator, Val};
    use crate::rules::util::const_resolver;
    use std::collections::BTreeMap as Map;
    let Some(f) = m.fns.iter().find(|f| f.name == "min_max" && f.self_ty.as_deref() == Some("ASN1Value")) else {
        ctx.fail_closed("C08.guard", "anchor not found: ASN1Value::min_max");
        return;
    };
    ctx.func(&f.key);
    let consts = const_resolver(m);
    let hook = |_: &Evaluator, name: &str, a: &[Val]| -> Option<Result<Val, String>> {
        match (name, a.first()) {
            // the alphabet a..z as (index, char) pairs
            (".iter", Some(Val::Opaque(s))) if s == "set" => Some(Ok(Val::List((0u8..26).map(|i| Val::Tuple(vec![Val::int(i as i128), Val::Char((b'a' + i) as char)])).collect()))),
            ("grammar_error!", _) => Some(Ok(Val::Sym("error".into()))),
            (".clone", Some(v)) if a.len() == 1 => Some(Ok(v.clone())),
            _ => None,
        }
    };
    let ev = Evaluator { consts: &consts, call_hook: &hook, inline: None };
    let params: Vec<String> = f.sig.inputs.iter().filter_map(|a| match a { syn::FnArg::Typed(t) => Some(tok(&t.pat)), _ => None }).collect();
    if params.len() != 3 {
        ctx.fail_closed("C08.guard", "min_max: expected (other, char_set, getting_minimum)");
        return;
    }
    let st = |s: &str| Val::Ctor("String".into(), vec![Val::Str(s.into())], Map::new());
    let strings = ["", "a", "z", "ab", "\u{e9}", "\u{20ac}x", " "];
    let mut n = 0;
    let mut reported = false;
    for a in strings {
        for b in strings {
            for min in [true, false] {
                n += 1;
                let mut env = Env::new();
                env.insert("self".into(), st(a));
                env.insert(params[0].clone(), st(b));
                env.insert(params[1].clone(), Val::some(Val::Opaque("set".into())));
                env.insert(params[2].clone(), Val::Bool(min));
                match ev.eval_fn_body(&f.block, &mut env) {
                    Ok(Val::Ctor(k, _, _)) if k == "Ok" || k == "Err" => {}
                    Ok(o) => { ctx.fail_closed("C08.guard", &format!("[min_max({:?}, {:?})]: {}", a, b, o.show())); return }
                    Err(e) if e.contains("would panic") => {
                        if !reported {
                            reported = true;
                            ctx.violate("C08.guard", "min_max", &f.file, f.line,
                                &format!("ASN1Value::min_max({:?}, {:?}, alphabet) panics: {} — a character range bound written as {:?} (e.g. `IA5String (FROM (\"abc\") ^ FROM (\"\"..\"z\"))`) must be reported as Err", a, b, e, if a.chars().count() != 1 { a } else { b }));
                        }
                    }
                    Err(e) => { ctx.fail_closed("C08.guard", &format!("[min_max({:?}, {:?})]: {}", a, b, e)); return }
                }
            }
        }
    }
    ctx.oblige("C08.guard", "min_max", true);
    ctx.floor("C08.guard/evaluations", n, 90);
}

/// C08.slice: the excerpt helper behind contextualize() slices the source text by byte counts. It is evaluated on texts
/// with leading white space and multi-byte characters at every place a cut can fall (text shorter / longer than the
/// fallback length, error at the start / at the end); a slice that is out of range or not on a character boundary is a
/// panic while *rendering* an error.
fn slice_totality(m: &Model, ctx: &mut Ctx) {
    use crate::eval::{Env, Evaluator, Val};
    use crate::rules::util::const_resolver;
    let Some(f) = m.fns.iter().find(|f| f.name == "until_next_unindented" && f.module.starts_with("lexer")) else {
        ctx.fail_closed("C08.slice", "anchor not found: lexer::util::until_next_unindented");
        return;
    };
    ctx.func(&f.key);
    let consts = const_resolver(m);
    let hook = |_: &Evaluator, name: &str, a: &[Val]| -> Option<Result<Val, String>> {
        match (name, a.first()) {
            (".unwrap_or_default", Some(Val::Ctor(n, _, _))) if n == "None" => Some(Ok(Val::Str(String::new()))),
            _ => None,
        }
    };
    let ev = Evaluator { consts: &consts, call_hook: &hook, inline: None };
    let params: Vec<String> = f.sig.inputs.iter().filter_map(|a| match a { syn::FnArg::Typed(t) => Some(tok(&t.pat)), _ => None }).collect();
    let mut n = 0;
    let mut reported = false;
    let bodies = ["abc\u{b0}".to_string(), "\u{b0}\u{b0}\u{b0}\u{b0}".to_string(), "a\u{20ac}b".to_string(), "T ::= INTEGER -- in \u{b0}".to_string(), "\u{e9}".repeat(200), format!("{}\u{20ac}", "x".repeat(298)), "\u{1F600}".repeat(80)];
    'outer: for lead in ["", " ", "  ", "\n\n  ", "\t"] {
        for body in &bodies {
            for tail in ["", "\n", "  "] {
                let text = format!("{}{}{}", lead, body, tail);
                for at in [0usize, text.len()] {
                    for fallback in [1usize, 2, 3, 5, 300] {
                        n += 1;
                        let mut env = Env::new();
                        env.insert(params.first().cloned().unwrap_or("input".into()), Val::Str(text.clone()));
                        env.insert(params.get(1).cloned().unwrap_or("at_least_until".into()), Val::int(at as i128));
                        env.insert(params.get(2).cloned().unwrap_or("fallback_len".into()), Val::int(fallback as i128));
                        match ev.eval_fn_body(&f.block, &mut env) {
                            Ok(_) => {}
                            Err(e) if e.contains("would panic") || e.contains("out of range") || e.contains("overflow") => {
                                if reported { continue; }
                                reported = true;
                                ctx.violate("C08.slice", "until_next_unindented", &f.file, f.line,
                                    &format!("until_next_unindented({:?} [{} bytes], {}, {}) panics: {} — contextualize() of a lexer error then panics instead of rendering it", text.chars().take(24).collect::<String>(), text.len(), at, fallback, e));
                            }
                            Err(e) => {
                                ctx.fail_closed("C08.slice", &format!("[until_next_unindented {} bytes at {} fallback {}]: {}", text.len(), at, fallback, e));
                                break 'outer;
                            }
                        }
                    }
                }
            }
        }
    }
    ctx.oblige("C08.slice", "until_next_unindented", true);
    ctx.floor("C08.slice/evaluations", n, 500);
}

/// C08.acyclic: the resolvers that follow type references (classes baseline in audit/recursion.json) end because a chain
/// of type references ends: Validator::link removes every type assignment that lies on a pure reference cycle before
/// it links anything. The removal is evaluated on small definition maps, and its place (before the key loop) is checked.
fn acyclic(m: &Model, ctx: &mut Ctx) {
    use crate::eval::{Env, Evaluator, Val};
    let Some(link) = m.fns.iter().find(|f| f.name == "link" && f.self_ty.as_deref() == Some("Validator")) else {
        ctx.fail_closed("C08.acyclic", "anchor not found: Validator::link");
        return;
    };
    ctx.oblige("C08.acyclic", "removal-before-linking", true);
    // the call must come before the loop over the keys (a top-level statement of link, ahead of the `while`)
    let mut call_at = None;
    let mut loop_at = None;
    for (i, st) in link.block.stmts.iter().enumerate() {
        let t = tok(st);
        if t.contains("self.remove_circular_type_references()") && call_at.is_none() {
            call_at = Some(i);
        }
    }
    if let Some(first) = crate::rules::util::link_key_loops(link).first() {
        loop_at = Some(first.stmt_index);
    }
    match (call_at, loop_at) {
        (Some(a), Some(b)) if a < b => {}
        (None, _) => {
            ctx.violate("C08.acyclic", "cycle-removal-missing", &link.file, link.line,
                "Validator::link no longer removes type assignments that are only defined in terms of themselves before linking: `A ::= B  B ::= A  v A ::= 5` sends link_with_type / link_enum_or_distinguished / DeclarationElsewhere::root into unbounded recursion (stack exhaustion)");
            return;
        }
        _ => {
            ctx.violate("C08.acyclic", "cycle-removal-after-linking", &link.file, link.line, "the removal of circular type references must run before the linking loop");
            return;
        }
    }
    let Some(f) = m.fns.iter().find(|f| f.name == "remove_circular_type_references" && f.self_ty.as_deref() == Some("Validator")) else {
        ctx.fail_closed("C08.acyclic", "anchor not found: Validator::remove_circular_type_references");
        return;
    };
    ctx.func(&f.key);
    let consts = crate::rules::util::const_resolver(m);
    // definition maps: name -> Some(referenced name) for `X ::= Y`, None for a constructed / builtin type
    let maps: Vec<(&str, Vec<(&str, Option<&str>)>, Vec<&str>)> = vec![
        ("two-cycle with an alias leading into it", vec![("A", Some("B")), ("B", Some("A")), ("C", Some("A")), ("D", None)], vec!["A", "B"]),
        ("self reference", vec![("E", Some("E")), ("F", Some("G")), ("G", None)], vec!["E"]),
        ("three-cycle", vec![("P", Some("Q")), ("Q", Some("R")), ("R", Some("P")), ("S", Some("T")), ("T", Some("S"))], vec!["P", "Q", "R", "S", "T"]),
        ("no cycle: chain ending in a builtin type", vec![("A", Some("B")), ("B", Some("C")), ("C", None)], vec![]),
        ("reference to an undefined type", vec![("A", Some("Missing"))], vec![]),
        ("value assignments are not type references", vec![("v", None), ("A", Some("A"))], vec!["A"]),
    ];
    for (what, defs, want) in maps {
        ctx.oblige("C08.acyclic", what, true);
        let defs2: Vec<(String, Option<String>)> = defs.iter().map(|(n, r)| (n.to_string(), r.map(|x| x.to_string()))).collect();
        let hook = move |_: &Evaluator, name: &str, a: &[Val]| -> Option<Result<Val, String>> {
            let is_map = matches!(a.first(), Some(Val::Opaque(s)) if s == "tlds");
            match name {
                ".keys" if is_map => Some(Ok(Val::List(defs2.iter().map(|(n, _)| Val::Str(n.clone())).collect()))),
                ".get" if is_map => {
                    let key = match a.get(1) { Some(Val::Str(k)) => k.clone(), o => return Some(Err(format!("tlds.get({:?})", o.map(|x| x.show())))) };
                    Some(Ok(match defs2.iter().find(|(n, _)| *n == key) {
                        None => Val::none(),
                        Some((_, Some(r))) => {
                            let mut e = BTreeMap::new();
                            e.insert("identifier".to_string(), Val::Str(r.clone()));
                            let mut t = BTreeMap::new();
                            t.insert("ty".to_string(), Val::Ctor("ElsewhereDeclaredType".into(), vec![Val::Ctor("DeclarationElsewhere".into(), vec![], e)], BTreeMap::new()));
                            Val::some(Val::Ctor("Type".into(), vec![Val::Ctor("ToplevelTypeDefinition".into(), vec![], t)], BTreeMap::new()))
                        }
                        Some((n, None)) if n.chars().next().map(|c| c.is_lowercase()).unwrap_or(false) => Val::some(Val::Ctor("Value".into(), vec![Val::Opaque("value".into())], BTreeMap::new())),
                        Some((_, None)) => {
                            let mut t = BTreeMap::new();
                            t.insert("ty".to_string(), Val::Ctor("Integer".into(), vec![Val::Opaque("int".into())], BTreeMap::new()));
                            Val::some(Val::Ctor("Type".into(), vec![Val::Ctor("ToplevelTypeDefinition".into(), vec![], t)], BTreeMap::new()))
                        }
                    }))
                }
                ".remove" if is_map => Some(Ok(Val::Unit)),
                ".into" | ".cloned" | ".clone" if a.len() == 1 => Some(Ok(a[0].clone())),
                _ => None,
            }
        };
        let ev = Evaluator { consts: &consts, call_hook: &hook, inline: None };
        let mut env = Env::new();
        let mut sv = BTreeMap::new();
        sv.insert("tlds".to_string(), Val::Opaque("tlds".into()));
        env.insert("self".into(), Val::Ctor("Validator".into(), vec![], sv));
        // the scenarios have at most five definitions: a loop over them that runs 200 rounds does not end
        crate::eval::WHILE_BOUND.with(|b| b.set(200));
        let evaluated = ev.eval_fn_body(&f.block, &mut env);
        crate::eval::WHILE_BOUND.with(|b| b.set(10_000));
        match evaluated {
            Ok(Val::List(l)) => {
                let mut got: Vec<String> = l.iter().filter_map(|e| match e {
                    Val::Ctor(_, _, f) => match f.get("pdu") { Some(Val::Ctor(s, p, _)) if s == "Some" => match p.first() { Some(Val::Str(n)) => Some(n.clone()), _ => None }, _ => None },
                    _ => None,
                }).collect();
                got.sort();
                let mut w: Vec<String> = want.iter().map(|x| x.to_string()).collect();
                w.sort();
                if got != w || got.len() != l.len() {
                    ctx.violate("C08.acyclic", "cycle-detection", &f.file, f.line,
                        &format!("{}: the definitions reported (and removed) as circular are {:?}, the type assignments on a pure reference cycle are {:?}: a cycle that is left in the map sends the reference-chasing resolvers into unbounded recursion, a removed acyclic definition is lost", what, got, w));
                }
            }
            Ok(o) => ctx.fail_closed("C08.acyclic", &format!("[{}]: {}", what, o.show().chars().take(160).collect::<String>())),
            Err(e) if e.contains("did not terminate") => ctx.violate("C08.acyclic", &format!("removal-hangs:{}", what.replace(' ', "-")), &f.file, f.line,
                &format!("remove_circular_type_references on the scenario `{}` is still looping after 200 rounds over at most five definitions: the chain of references is followed without remembering where it has been, so this input hangs the compiler", what)),
            Err(e) => ctx.fail_closed("C08.acyclic", &format!("[{}]: {}", what, e)),
        }
    }
}

/// C08.deadguard: two subtraction sites of `resolve_elsewhere_with_parent` (`tokens.get(i - 1)`, `c.get(i - 1)` with i = 0)
/// are audited as unreachable, not as safe: the lexer records the parent of `object.&field` together with the `.&`
/// (`recognize(many1(pair(identifier, tag(".&"))))`), and the function's first act is to refuse every parent that contains
/// a dot. The function is evaluated on references as the lexer builds them: it must answer with an error before it looks
/// anything up — if it gets past that point, the code the audit calls unreachable is reachable.
fn dead_guard(m: &Model, ctx: &mut Ctx) {
    use crate::eval::{Env, Evaluator, Val};
    let rule = "C08.deadguard";
    let Some(f) = m.fns.iter().find(|f| f.name == "resolve_elsewhere_with_parent" && f.self_ty.as_deref() == Some("ASN1Value")) else {
        // the function (and with it the audited sites) is gone: nothing to guard
        return;
    };
    ctx.func(&f.key);
    // the subtraction sites the argument is about
    let body = tok(&f.block);
    let sites = body.matches("i-1").count();
    ctx.oblige(rule, "guarded-sites", true);
    if sites == 0 {
        return;
    }
    let consts = crate::rules::util::const_resolver(m);
    let ev = Evaluator { consts: &consts, call_hook: &crate::eval::no_hook, inline: None };
    let param = f.sig.inputs.iter().filter_map(|a| match a { syn::FnArg::Typed(t) => Some(tok(&t.pat)), _ => None }).next().unwrap_or("tlds".into());
    for parent in ["o.&", "outer.&inner.&"] {
        ctx.oblige(rule, &format!("parent:{}", parent), true);
        let mut fields = std::collections::BTreeMap::new();
        fields.insert("module".to_string(), Val::none());
        fields.insert("parent".to_string(), Val::some(Val::Str(parent.into())));
        fields.insert("identifier".to_string(), Val::Str("max".into()));
        let mut env = Env::new();
        env.insert("self".into(), Val::Ctor("ElsewhereDeclaredValue".into(), vec![], fields));
        env.insert(param.clone(), Val::Opaque("tlds".into()));
        match ev.eval_fn_body(&f.block, &mut env) {
            Ok(Val::Ctor(e, _, _)) if e == "Err" => {}
            other => {
                let what = match other { Ok(v) => format!("it returns {}", v.show().chars().take(60).collect::<String>()), Err(e) => format!("evaluation goes on to `{}`", e.chars().take(90).collect::<String>()) };
                ctx.violate(rule, "guard-open", &f.file, f.line,
                    &format!("resolve_elsewhere_with_parent no longer refuses the reference `{}max` (parent recorded by the lexer as {:?}) up front: {} — the lookups behind the guard become reachable, among them `c.get(i - 1)` / `tokens.get(i - 1)` with i = 0 ({} site(s)), audited as *unreachable*, which underflow (panic with overflow checks) when the referenced value is the first token of a custom syntax", parent, parent, what, sites));
            }
        }
    }
}

/// C08.withdraw: the linking steps of Validator::link hand `&self.tlds` to resolvers that chase references through the
/// map without a visited set (audit classes baseline/finding). What keeps a definition from being resolved *through
/// itself* is that every step first takes the current definition out of the map (remove / remove_entry) and puts it
/// back afterwards; a step that works on a copy while the original stays visible loses that guard.
fn withdraw(m: &Model, ctx: &mut Ctx) {
    let Some(f) = m.fns.iter().find(|f| f.name == "link" && f.self_ty.as_deref() == Some("Validator")) else {
        ctx.fail_closed("C08.withdraw", "anchor not found: Validator::link");
        return;
    };
    let loops = crate::rules::util::link_key_loops(f);
    if loops.is_empty() {
        ctx.fail_closed("C08.withdraw", "Validator::link: no pass over the definitions was found");
        return;
    }
    let stmts: Vec<syn::Stmt> = loops.iter().flat_map(|l| l.body.stmts.clone()).collect();
    let steps = ["resolve_object_set_references", "resolve_class_reference", "link_components_of_notation", "link_choice_selection_type", "link_object_set_reference", "link_constraint_reference", "collect_supertypes", "mark_recursive"];
    let mut seen = 0;
    for st in &stmts {
        let blk = syn::Block { brace_token: Default::default(), stmts: vec![st.clone()] };
        let called: Vec<String> = model::method_calls_in(&blk).iter().map(|mc| mc.method.to_string()).filter(|n| steps.contains(&n.as_str())).collect();
        if called.is_empty() {
            continue;
        }
        let t = tok(st);
        for c in called.iter().collect::<BTreeSet<_>>() {
            seen += 1;
            ctx.oblige("C08.withdraw", c, true);
            let withdrawn = t.contains("self.tlds.remove_entry(&key)") || t.contains("self.tlds.remove(&key)");
            if !withdrawn {
                ctx.violate("C08.withdraw", &format!("step-on-visible-definition:{}", c), &f.file, model::line_of(syn::spanned::Spanned::span(st)),
                    &format!("the step of Validator::link that runs `{}` no longer takes the current definition out of the map first: the resolver is handed a map in which the definition being resolved is still visible, so a definition that refers to itself is resolved through itself without end (stack exhaustion)", c));
            }
        }
    }
    ctx.floor("C08.withdraw/steps", seen, 8);
}

/// `loop {}` and `while cond {}` / `while let` not driven by an iterator's next()/pop() are listed and audited.
fn loops(m: &Model, ctx: &mut Ctx) {
    let audit = load_audit(ctx, "loops.json");
    let table = audit["loops"].as_object().cloned().unwrap_or_default();
    let mut found: BTreeMap<String, (String, usize, usize)> = BTreeMap::new();
    for f in m.fns.iter() {
        struct C {
            out: Vec<(String, usize)>,
        }
        impl model::DeepCb for C {
            fn expr(&mut self, e: &syn::Expr) {
                match e {
                    syn::Expr::Loop(l) => self.out.push(("loop".into(), l.loop_token.span.start().line)),
                    syn::Expr::While(w) => {
                        let c = model::tok(&w.cond);
                        let kind = if c.starts_with("let ") && (c.contains(".next()") || c.contains(".pop()") || c.contains(".pop_front()")) {
                            "while-let-iter"
                        } else {
                            "while"
                        };
                        self.out.push((kind.into(), w.while_token.span.start().line));
                    }
                    _ => {}
                }
            }
        }
        let mut c = C { out: vec![] };
        model::deep_walk_block(&f.block, &mut c);
        let mut per_kind: BTreeMap<String, usize> = BTreeMap::new();
        for (k, line) in c.out {
            let n = per_kind.entry(k.clone()).or_default();
            *n += 1;
            let key = format!("{}::{}|{}", f.krate.replace('-', "_"), f.key, k);
            let e = found.entry(key).or_insert((f.file.clone(), line, 0));
            e.2 += 1;
        }
    }
    if std::env::var("ASNLINT_DUMP_LOOPS").is_ok() {
        let mut tbl = serde_json::Map::new();
        for (k, (_, line, n)) in &found {
            tbl.insert(k.clone(), json!({"count": n, "class": "baseline", "reason": "", "line": line}));
        }
        println!("{}", serde_json::to_string_pretty(&Value::Object(tbl)).unwrap());
    }
    ctx.floor("C08.loop/loops", found.len(), 5);
    for (k, (file, line, n)) in &found {
        ctx.oblige("C08.loop", k, true);
        match table.get(k) {
            None => ctx.violate("C08.loop", &format!("unaudited-loop:{}", k), file, *line,
                &format!("loop `{}` has no progress argument in audit/loops.json (a loop that is not driven by a finite iterator can hang)", k)),
            Some(e) => {
                let cnt = e["count"].as_u64().unwrap_or(0) as usize;
                if *n > cnt {
                    ctx.violate("C08.loop", &format!("count:{}", k), file, *line, &format!("{} loops of this kind, audit covers {}", n, cnt));
                }
                if e["class"].as_str() == Some("finding") {
                    ctx.violate("C08.loop", &format!("finding:{}", k), file, *line, &format!("known non-terminating loop: {}", e["reason"].as_str().unwrap_or("")));
                }
            }
        }
    }
}

/// C08.filter: the conversion of a constraint element into PER-visible bounds ends in `x => unreachable!()` for the
/// element kinds it does not handle; what keeps those kinds away is the PerVisible filter applied before it. The two
/// are checked against each other: the filter (evaluated abstractly, recursing through SIZE / FROM wrappers) may say
/// "visible" only for an element the converter handles — also when the element sits inside a SIZE or FROM wrapper.
fn filter_converter(m: &Model, ctx: &mut Ctx) {
    use crate::eval::{Env, Evaluator, Val};
    let filt_se = m.fns.iter().find(|f| f.name == "per_visible" && f.self_ty.as_deref() == Some("SubtypeElements") && f.trait_.as_deref() == Some("PerVisible"));
    let filt_eo = m.fns.iter().find(|f| f.name == "per_visible" && f.self_ty.as_deref() == Some("ElementOrSetOperation") && f.trait_.as_deref() == Some("PerVisible"));
    let conv = m.fns.iter().find(|f| f.name == "try_from" && f.self_ty.as_deref() == Some("PerVisibleRangeConstraints") && f.trait_.as_deref().map(|t| t.contains("Option<&SubtypeElements>")).unwrap_or(false));
    let (Some(filt_se), Some(filt_eo), Some(conv)) = (filt_se, filt_eo, conv) else {
        ctx.fail_closed("C08.filter", "anchors not found: PerVisible for SubtypeElements / ElementOrSetOperation, TryFrom<Option<&SubtypeElements>> for PerVisibleRangeConstraints");
        return;
    };
    ctx.func(&filt_se.key);
    ctx.func(&conv.key);
    let Ok(en) = m.find_enum("SubtypeElements") else {
        ctx.fail_closed("C08.filter", "enum SubtypeElements not found");
        return;
    };
    // converter: variants with an arm of their own (the wildcard arm is the unreachable!())
    let Some(cm) = model::matches_in(&conv.block).into_iter().next() else {
        ctx.fail_closed("C08.filter", "converter: no match");
        return;
    };
    let wildcard_panics = cm.arms.iter().any(|a| !tok(&a.pat).contains("SubtypeElements::") && tok(&a.body).contains("unreachable!"));
    let handled: BTreeSet<String> = en.variants.iter().filter(|v| cm.arms.iter().any(|a| tok(&a.pat).split('|').any(|alt| alt.contains(&format!("SubtypeElements::{}", v))))).cloned().collect();
    ctx.extra.insert("converter_handles".into(), json!(handled));
    if !wildcard_panics {
        // nothing to protect
        ctx.oblige("C08.filter", "converter-total", true);
        return;
    }
    let consts = crate::rules::util::const_resolver(m);
    let se_block = filt_se.block.clone();
    let eo_block = filt_eo.block.clone();
    let hook = move |ev: &Evaluator, name: &str, a: &[Val]| -> Option<Result<Val, String>> {
        match (name, a.first()) {
            (".per_visible", Some(recv @ Val::Ctor(n, _, _))) => {
                let mut env = Env::new();
                env.insert("self".into(), recv.clone());
                Some(ev.eval_fn_body(if n == "Element" || n == "SetOperation" { &eo_block } else { &se_block }, &mut env))
            }
            (".constraints", Some(_)) => Some(Ok(Val::List(vec![]))),
            _ => None,
        }
    };
    let ev = Evaluator { consts: &consts, call_hook: &hook, inline: None };
    let sample = |v: &str, inner: Option<Val>| -> Val {
        match v {
            "SingleValue" => Val::Ctor(v.into(), vec![], [("value".to_string(), Val::Opaque("v".into())), ("extensible".to_string(), Val::Bool(false))].into_iter().collect()),
            "ValueRange" => Val::Ctor(v.into(), vec![], [("min".to_string(), Val::none()), ("max".to_string(), Val::none()), ("extensible".to_string(), Val::Bool(false))].into_iter().collect()),
            "ContainedSubtype" => Val::Ctor(v.into(), vec![], [("subtype".to_string(), Val::Opaque("ty".into())), ("extensible".to_string(), Val::Bool(false))].into_iter().collect()),
            "PermittedAlphabet" | "SizeConstraint" => Val::Ctor(v.into(), vec![Val::Ctor("Element".into(), vec![inner.unwrap_or(Val::Opaque("e".into()))], BTreeMap::new())], BTreeMap::new()),
            o => Val::Ctor(o.into(), vec![Val::Opaque("payload".into())], BTreeMap::new()),
        }
    };
    let visible = |v: &Val| -> Result<bool, String> {
        let mut env = Env::new();
        env.insert("self".into(), v.clone());
        match ev.eval_fn_body(&filt_se.block, &mut env)? {
            Val::Bool(b) => Ok(b),
            o => Err(format!("per_visible returned {}", o.show())),
        }
    };
    for v in &en.variants {
        if v == "PermittedAlphabet" || v == "SizeConstraint" {
            for inner in &en.variants {
                if inner == "PermittedAlphabet" || inner == "SizeConstraint" {
                    continue;
                }
                let key = format!("{}({})", v, inner);
                ctx.oblige("C08.filter", &key, true);
                match visible(&sample(v, Some(sample(inner, None)))) {
                    Ok(vis) => {
                        if vis && !handled.contains(inner) {
                            ctx.violate("C08.filter", &format!("visible-but-unhandled:{}", key), &filt_se.file, filt_se.line,
                                &format!("the PER-visibility filter lets `{} ({} ..)` through, but the conversion into bounds unwraps the {} and has no arm for a {} element: it ends in unreachable!() (panic on e.g. `OCTET STRING (SIZE (PATTERN \"abc\"))`)", if v == "SizeConstraint" { "SIZE" } else { "FROM" }, inner, v, inner));
                        }
                    }
                    Err(e) => ctx.fail_closed("C08.filter", &format!("[{}]: {}", key, e)),
                }
            }
        } else {
            ctx.oblige("C08.filter", v, true);
            match visible(&sample(v, None)) {
                Ok(vis) => {
                    if vis && !handled.contains(v) {
                        ctx.violate("C08.filter", &format!("visible-but-unhandled:{}", v), &filt_se.file, filt_se.line,
                            &format!("the PER-visibility filter lets a {} element through, but the conversion into bounds has no arm for it and ends in unreachable!()", v));
                    }
                }
                Err(e) => ctx.fail_closed("C08.filter", &format!("[{}]: {}", v, e)),
            }
        }
    }
}
