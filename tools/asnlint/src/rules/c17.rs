//! C17 — syntax errors are reported at the malformed definition, consistently.
use crate::model::{self, tok, Model};
use crate::report::Ctx;
use crate::rules::util::*;
use serde_json::json;

/// expressions inside format-like macro arguments of a block
fn format_args_of(b: &syn::Block) -> Vec<(String, usize)> {
    let mut out = vec![];
    for mac in model::all_macros(b) {
        let name = mac.path.segments.last().map(|s| s.ident.to_string()).unwrap_or_default();
        if ["format", "write", "writeln", "print", "println"].contains(&name.as_str()) {
            if let Some(args) = model::macro_args(&mac) {
                for a in args {
                    out.push((tok(&a), span_line(&a)));
                }
            }
        }
    }
    out
}

pub fn run(m: &Model, ctx: &mut Ctx) {
    ctx.explanation = "C17.same: the line, column and file printed by Display, marked by contextualize() and stored in ReportData are the same access paths with no arithmetic in between (sibling normal forms). \
C17.book: line/column/offset are written only by Input's constructors (1, 1, 0) and by Input::slice; Input::slice is evaluated abstractly on LF / CRLF / lone-CR texts for every suffix slice `n..` and prefix slice `..n`: the new line is the old line plus the number of '\\n' in exactly the consumed bytes, the new offset the old offset plus the consumed length, a zero-length step copies the position, context start and path are kept; reset_context copies the current line/offset and is applied at the top-level assignment boundaries. \
C17.path: the source path flows AsnSource::Path -> AsnSourceUnit.path -> Input.src_file -> ReportData.src_file -> both renderings. \
Not applicable: that the position lies in the first malformed assignment (nom's run-time error selection).".into();
    ctx.assumptions = vec!["nom's Offset::offset gives the byte distance between the two slices".into()];
    ctx.rule("normal-form comparison of the three renderings; who-may-write and def-use dependences of the position fields");

    // ---------------- C17.same ----------------
    let disp = m.fns.iter().find(|f| f.name == "fmt" && f.self_ty.as_deref() == Some("LexerError") && f.trait_.as_deref() == Some("Display"));
    match disp {
        None => ctx.fail_closed("C17.same", "anchor not found: Display for LexerError"),
        Some(f) => {
            ctx.func(&f.key);
            // Display evaluated: the text carries the report's line and column, and the file when there is one
            {
                use crate::eval::{Env, Evaluator, Val};
                use std::collections::BTreeMap as Map;
                let consts = const_resolver(m);
                let hook = |_: &Evaluator, _: &str, _: &[Val]| -> Option<Result<Val, String>> { None };
                let ev = Evaluator { consts: &consts, call_hook: &hook, inline: None };
                for file in [None, Some("dir/x.asn")] {
                    ctx.oblige("C17.path", &format!("display:file={}", file.is_some()), true);
                    let mut rd = Map::new();
                    rd.insert("line".to_string(), Val::int(17));
                    rd.insert("column".to_string(), Val::int(4));
                    rd.insert("offset".to_string(), Val::int(321));
                    rd.insert("context_start_line".to_string(), Val::int(12));
                    rd.insert("context_start_offset".to_string(), Val::int(250));
                    rd.insert("src_file".to_string(), file.map(|x| Val::some(Val::Str(x.into()))).unwrap_or(Val::none()));
                    let mut me = Map::new();
                    me.insert("kind".to_string(), Val::Ctor("MatchingError".into(), vec![Val::Ctor("ReportData".into(), vec![], rd)], Map::new()));
                    let mut env = Env::new();
                    env.insert("self".into(), Val::Ctor("LexerError".into(), vec![], me));
                    env.insert("f".into(), Val::Opaque("formatter".into()));
                    env.insert("$out".into(), Val::Str(String::new()));
                    match ev.eval_fn_body(&f.block, &mut env) {
                        Ok(_) => {
                            let out = match env.get("$out") { Some(Val::Str(t)) => t.clone(), _ => String::new() };
                            let pos_ok = out.contains("17:4") || out.contains("line 17, column 4");
                            if !pos_ok {
                                ctx.violate("C17.same", "display-line", &f.file, f.line, &format!("Display of an error at line 17 column 4 prints `{}`: the structured report, Display and contextualize() show the same position", out));
                            }
                            if file.is_some() != out.contains("dir/x.asn") {
                                ctx.violate("C17.path", "display-prints-file", &f.file, f.line, &format!("Display of an error {} prints `{}`: the source path is reported exactly when the input came from a file", if file.is_some() { "in dir/x.asn" } else { "in a literal" }, out));
                            }
                        }
                        Err(e) => ctx.fail_closed("C17.path", &format!("[Display]: {}", e)),
                    }
                }
            }
        }
    }
    // contextualize() is evaluated on a report whose context starts in the middle of a 12-line text: the header shows the
    // report's line and column (and the file when there is one), every printed line carries its number in the *file*, and the
    // FAILED AT THIS LINE marker stands on the reported line — which shows the text of that line
    if let Some(f) = anchor_fn(m, ctx, "C17.same", Some("LexerError"), "contextualize", None) {
        use crate::eval::{Env, Evaluator, Val};
        use std::collections::BTreeMap as Map;
        let consts = const_resolver(m);
        let helper = m.fns.iter().find(|g| g.name == "until_next_unindented" && g.module.starts_with("lexer"));
        let hook = |ev: &Evaluator, name: &str, a: &[Val]| -> Option<Result<Val, String>> {
            match name {
                "until_next_unindented" => {
                    let h = helper?;
                    let ps: Vec<String> = h.sig.inputs.iter().filter_map(|x| match x { syn::FnArg::Typed(t) => Some(tok(&t.pat)), _ => None }).collect();
                    let mut env = Env::new();
                    for (p, v) in ps.iter().zip(a.iter()) {
                        env.insert(p.clone(), v.clone());
                    }
                    Some(ev.eval_fn_body(&h.block, &mut env))
                }
                ".unwrap_or_default" if matches!(a.first(), Some(Val::Ctor(n, _, _)) if n == "None") => Some(Ok(Val::Str(String::new()))),
                _ => None,
            }
        };
        let ev = Evaluator { consts: &consts, call_hook: &hook, inline: None };
        let lines: Vec<String> = vec!["M DEFINITIONS ::= BEGIN".into(), "".into(), "A ::= INTEGER".into(), "B ::= BOOLEAN".into(), "".into(), "-- c".into(), "C ::= NULL".into(),
            "Bad ::= SEQUENCE {".into(), "  a INTEGER,".into(), "  b § BOOLEAN".into(), "}".into(), "Next ::= NULL".into(), "END".into()];
        let text = lines.join("\n") + "\n";
        let offset_of_line = |n: usize| -> usize { lines.iter().take(n - 1).map(|l| l.len() + 1).sum() };
        let param = f.sig.inputs.iter().filter_map(|a| match a { syn::FnArg::Typed(t) => Some(tok(&t.pat)), _ => None }).next().unwrap_or("input".into());
        // the failing line has one digit while the excerpt reaches two-digit lines (labels are padded), and two digits
        // .. and with the error on the first character of a line, on the last line of the definition and on its last character
        for (file, err_line, err_col) in [(None, 10usize, 5usize), (Some("dir/x.asn"), 10, 5), (None, 9, 5), (Some("dir/x.asn"), 9, 5), (None, 10, 1), (None, 9, 1), (None, 11, 1), (None, 10, 13), (None, 8, 1)] {
            let ctx_line = 8usize;
            let err_offset = offset_of_line(err_line) + err_col - 1;
            let key = format!("contextualize:file={}:line={}:column={}", file.is_some(), err_line, err_col);
            ctx.oblige("C17.same", &key, true);
            let mut rd = Map::new();
            rd.insert("line".to_string(), Val::int(err_line as i128));
            rd.insert("column".to_string(), Val::int(err_col as i128));
            rd.insert("offset".to_string(), Val::int(err_offset as i128));
            rd.insert("context_start_line".to_string(), Val::int(ctx_line as i128));
            rd.insert("context_start_offset".to_string(), Val::int(offset_of_line(ctx_line) as i128));
            rd.insert("src_file".to_string(), file.map(|x| Val::some(Val::Str(x.into()))).unwrap_or(Val::none()));
            rd.insert("reason".to_string(), Val::Str("reason".into()));
            let mut me = Map::new();
            me.insert("kind".to_string(), Val::Ctor("MatchingError".into(), vec![Val::Ctor("ReportData".into(), vec![], rd)], Map::new()));
            let mut env = Env::new();
            env.insert("self".into(), Val::Ctor("LexerError".into(), vec![], me));
            env.insert(param.clone(), Val::Str(text.clone()));
            match ev.eval_fn_body(&f.block, &mut env) {
                Ok(Val::Str(out)) | Ok(Val::Sym(out)) => {
                    let header_ok = match file {
                        Some(fname) => out.contains(&format!("{}:{}:{}", fname, err_line, err_col)),
                        None => out.contains(&format!("line {}, column {}", err_line, err_col)) || out.contains(&format!("{}:{}", err_line, err_col)),
                    };
                    if !header_ok {
                        ctx.violate("C17.same", "contextualize-header", &f.file, f.line, &format!("contextualize() of an error at line {} column {}{} prints no header with that position: `{}`", err_line, err_col, file.map(|x| format!(" of {}", x)).unwrap_or_default(), out.lines().find(|l| l.contains("[")).unwrap_or("").trim()));
                    }
                    if file.is_some() && !out.contains("dir/x.asn") {
                        ctx.violate("C17.path", "contextualize-prints-file", &f.file, f.line, "contextualize() must mention the source file when the report carries one");
                    }
                    // gutter labels: ` NN │  text`
                    let mut labelled: Vec<(usize, String)> = vec![];
                    for l in out.lines() {
                        if let Some((lab, rest)) = l.split_once('│') {
                            if let Ok(n) = lab.trim().parse::<usize>() {
                                labelled.push((n, rest.to_string()));
                            }
                        }
                    }
                    let wrong: Vec<String> = labelled.iter().filter(|(n, t)| {
                        let shown = t.split('◀').next().unwrap_or("").trim();
                        lines.get(n - 1).map(|src| src.trim() != shown).unwrap_or(true)
                    }).map(|(n, t)| format!("{} -> {:?}", n, t.trim())).collect();
                    if !wrong.is_empty() {
                        ctx.violate("C17.same", "contextualize-start", &f.file, f.line, &format!("contextualize() labels lines with numbers that are not their line numbers in the source: {:?} (the excerpt starts at line {})", wrong, ctx_line));
                    }
                    let marked: Vec<usize> = labelled.iter().filter(|(_, t)| t.contains("FAILED AT THIS LINE")).map(|(n, _)| *n).collect();
                    if marked != vec![err_line] {
                        ctx.violate("C17.same", "contextualize-marker", &f.file, f.line, &format!("the FAILED AT THIS LINE marker stands on the lines {:?}; the report says line {}", marked, err_line));
                    }
                    if labelled.iter().all(|(n, _)| *n != ctx_line) {
                        ctx.violate("C17.same", "contextualize-context", &f.file, f.line, &format!("the excerpt does not start at the context start (line {}): printed lines {:?}", ctx_line, labelled.iter().map(|(n, _)| *n).collect::<Vec<_>>()));
                    }
                }
                Ok(o) => ctx.fail_closed("C17.same", &format!("[{}]: {}", key, o.show().chars().take(120).collect::<String>())),
                Err(e) => ctx.fail_closed("C17.same", &format!("[{}]: {}", key, e)),
            }
        }
    }
    // ReportData::from copies the Input's position accessors
    let rd = m.fns.iter().find(|f| f.name == "from" && f.self_ty.as_deref() == Some("ReportData"));
    match rd {
        None => ctx.fail_closed("C17.same", "anchor not found: From<ErrorTree> for ReportData"),
        Some(f) => {
            ctx.func(&f.key);
            // evaluated on a base error: every position field of the report is the failing Input's accessor value, unchanged
            {
                use crate::eval::{Env, Evaluator, Val};
                use std::collections::BTreeMap as Map;
                let consts = const_resolver(m);
                let vals: Vec<(&str, Val)> = vec![("line", Val::int(17)), ("column", Val::int(4)), ("offset", Val::int(321)), ("context_start_line", Val::int(12)), ("context_start_offset", Val::int(250)), ("src_file", Val::some(Val::Str("dir/x.asn".into())))];
                let vals2 = vals.clone();
                let hook = move |_: &Evaluator, name: &str, a: &[Val]| -> Option<Result<Val, String>> {
                    if matches!(a.first(), Some(Val::Opaque(s)) if s == "failing-input") {
                        if let Some((_, v)) = vals2.iter().find(|(n, _)| format!(".{}", n) == name) {
                            return Some(Ok(v.clone()));
                        }
                    }
                    None
                };
                let ev = Evaluator { consts: &consts, call_hook: &hook, inline: None };
                let param = f.sig.inputs.iter().filter_map(|a| match a { syn::FnArg::Typed(t) => Some(tok(&t.pat)), _ => None }).next().unwrap_or("value".into());
                let mut base = Map::new();
                base.insert("input".to_string(), Val::Opaque("failing-input".into()));
                base.insert("kind".to_string(), Val::Ctor("External".into(), vec![Val::Str("reason".into())], Map::new()));
                let mut env = Env::new();
                env.insert(param, Val::Ctor("Base".into(), vec![], base));
                match ev.eval_fn_body(&f.block, &mut env) {
                    Ok(Val::Ctor(_, _, fl)) => {
                        for (field, want) in &vals {
                            ctx.oblige("C17.same", &format!("report-data:{}", field), true);
                            if fl.get(*field) != Some(want) {
                                ctx.violate("C17.same", &format!("report-data:{}", field), &f.file, f.line, &format!("ReportData.{} is {:?} for an Input whose {}() is {}: the report must carry the failing Input's position unchanged", field, fl.get(*field).map(|x| x.show()), field, want.show()));
                            }
                        }
                    }
                    Ok(o) => ctx.fail_closed("C17.same", &format!("[ReportData::from]: {}", o.show().chars().take(100).collect::<String>())),
                    Err(e) => ctx.fail_closed("C17.same", &format!("[ReportData::from]: {}", e)),
                }
            }
            // evaluated on a choice of failures (`alt`) and on a stacked context: whichever alternative the report is about, its
            // line, column, offset and excerpt start belong to *one* failing Input — a line from one alternative with the offset
            // of another is a position that does not exist in the source
            {
                use crate::eval::{Env, Evaluator, Val};
                use std::collections::BTreeMap as Map;
                let consts = const_resolver(m);
                let fields = ["line", "column", "offset", "context_start_line", "context_start_offset"];
                let of = |input: &str, field: &str| -> i128 {
                    let base = match input { "input-A" => 100, "input-B" => 200, _ => 300 };
                    base + fields.iter().position(|f| *f == field).unwrap_or(9) as i128
                };
                let hook = move |_: &Evaluator, name: &str, a: &[Val]| -> Option<Result<Val, String>> {
                    if let Some(Val::Opaque(s)) = a.first() {
                        if s.starts_with("input-") {
                            if name == ".src_file" {
                                return Some(Ok(Val::none()));
                            }
                            if let Some(fl) = fields.iter().find(|f| format!(".{}", f) == name) {
                                return Some(Ok(Val::int(of(s, fl))));
                            }
                        }
                    }
                    None
                };
                let params: Vec<String> = f.sig.inputs.iter().filter_map(|a| match a { syn::FnArg::Typed(t) => Some(tok(&t.pat)), _ => None }).collect();
                let mut inl: Map<String, (Vec<String>, syn::Block)> = Map::new();
                inl.insert("from".into(), (params.clone(), f.block.clone()));
                let ev = Evaluator { consts: &consts, call_hook: &hook, inline: Some(&inl) };
                let base = |input: &str| {
                    let mut b = Map::new();
                    b.insert("input".to_string(), Val::Opaque(input.into()));
                    b.insert("kind".to_string(), Val::Ctor("External".into(), vec![Val::Str(format!("reason of {}", input))], Map::new()));
                    Val::Ctor("Base".into(), vec![], b)
                };
                let alt = |v: Vec<Val>| Val::Ctor("Alt".into(), vec![Val::List(v)], Map::new());
                let stack = |b: Val| { let mut s = Map::new(); s.insert("base".to_string(), b); s.insert("contexts".to_string(), Val::List(vec![])); Val::Ctor("Stack".into(), vec![], s) };
                let trees: Vec<(&str, Val)> = vec![
                    ("alt(A,B)", alt(vec![base("input-A"), base("input-B")])),
                    ("alt(B,A)", alt(vec![base("input-B"), base("input-A")])),
                    ("alt(A,alt(B,C))", alt(vec![base("input-A"), alt(vec![base("input-B"), base("input-C")])])),
                    ("stack(alt(A,B))", stack(alt(vec![base("input-A"), base("input-B")]))),
                    ("alt(stack(A),B)", alt(vec![stack(base("input-A")), base("input-B")])),
                ];
                for (label, tree) in trees {
                    ctx.oblige("C17.same", &format!("report-data:one-input:{}", label), true);
                    let mut env = Env::new();
                    env.insert(params.first().cloned().unwrap_or("value".into()), tree);
                    match ev.eval_fn_body(&f.block, &mut env) {
                        Ok(Val::Ctor(_, _, fl)) => {
                            let got: Vec<Option<i128>> = fields.iter().map(|k| match fl.get(*k) { Some(Val::Int { v, .. }) => Some(*v), _ => None }).collect();
                            let owner = ["input-A", "input-B", "input-C"].iter().find(|i| fields.iter().zip(got.iter()).all(|(k, g)| *g == Some(of(i, k))));
                            if owner.is_none() {
                                let from: Vec<String> = fields.iter().zip(got.iter()).map(|(k, g)| format!("{} of {}", k, ["input-A", "input-B", "input-C"].iter().find(|i| *g == Some(of(i, k))).map(|i| &i[6..]).unwrap_or("?"))).collect();
                                ctx.violate("C17.same", "report-data:mixed-inputs", &f.file, f.line,
                                    &format!("ReportData::from on the error tree {} builds a report whose position fields come from different failing inputs ({}): the line / column no longer describe the byte offset (\"the line number equals one plus the number of line breaks before that offset\")", label, from.join(", ")));
                            }
                        }
                        Ok(o) => ctx.fail_closed("C17.same", &format!("[ReportData::from {}]: {}", label, o.show().chars().take(100).collect::<String>())),
                        Err(e) => ctx.fail_closed("C17.same", &format!("[ReportData::from {}]: {}", label, e)),
                    }
                }
            }
        }
    }
    // From<nom::Err<ErrorTree>> for LexerError: a recoverable error and a failure (raised below `cut`) carry the same kind of
    // report — the conversion has no access to the source text, so whatever it recomputes about lines and offsets cannot be
    // checked against it: the report built by ReportData::from arrives unchanged for both
    if let Some(f) = m.fns.iter().find(|f| f.name == "from" && f.self_ty.as_deref() == Some("LexerError") && f.sig.inputs.iter().any(|a| matches!(a, syn::FnArg::Typed(t) if tok(&t.ty).contains("ErrorTree")))) {
        use crate::eval::{Env, Evaluator, Val};
        use std::collections::BTreeMap as Map;
        ctx.func(&f.key);
        let consts = const_resolver(m);
        let report = || {
            let mut rd = Map::new();
            for (k, v) in [("line", 17), ("column", 4), ("offset", 321), ("context_start_line", 12), ("context_start_offset", 250)] {
                rd.insert(k.to_string(), Val::int(v));
            }
            rd.insert("src_file".to_string(), Val::none());
            rd.insert("reason".to_string(), Val::Str("reason".into()));
            rd.insert("unexpected_eof".to_string(), Val::Bool(false));
            Val::Ctor("ReportData".into(), vec![], rd)
        };
        let hook = |_: &Evaluator, name: &str, a: &[Val]| -> Option<Result<Val, String>> {
            match (name, a.first()) {
                (".into", Some(Val::Opaque(s))) | ("ReportData::from", Some(Val::Opaque(s))) | ("From::from", Some(Val::Opaque(s))) if s == "error-tree" => Some(Ok(report())),
                _ => None,
            }
        };
        let ev = Evaluator { consts: &consts, call_hook: &hook, inline: None };
        let param = f.sig.inputs.iter().filter_map(|a| match a { syn::FnArg::Typed(t) => Some(tok(&t.pat)), _ => None }).next().unwrap_or("value".into());
        // the column Input gives the first character behind a line break (its own convention: evaluated, not assumed)
        let first_col = first_column_after_break(m).unwrap_or(1);
        let lines: Vec<&str> = vec!["M DEFINITIONS ::= BEGIN", "", "A ::= INTEGER", "B ::= BOOLEAN", "", "-- c", "C ::= NULL", "Bad ::= SEQUENCE {", "  a INTEGER,", "  b BOOLEAN DEFAULT ?,", "}", "Next ::= NULL", "END"];
        let text = lines.join("\n") + "\n";
        let offset_of_line = |n: usize| -> usize { lines.iter().take(n - 1).map(|l| l.len() + 1).sum() };
        let (err_line, nth_char, ctx_line) = (10usize, 21usize, 8usize);
        let concrete = {
            let mut rd = Map::new();
            rd.insert("line".to_string(), Val::int(err_line as i128));
            rd.insert("column".to_string(), Val::int(first_col + nth_char as i128 - 1));
            rd.insert("offset".to_string(), Val::int((offset_of_line(err_line) + nth_char - 1) as i128));
            rd.insert("context_start_line".to_string(), Val::int(ctx_line as i128));
            rd.insert("context_start_offset".to_string(), Val::int(offset_of_line(ctx_line) as i128));
            rd.insert("src_file".to_string(), Val::none());
            rd.insert("reason".to_string(), Val::Str("reason".into()));
            rd.insert("unexpected_eof".to_string(), Val::Bool(false));
            Val::Ctor("ReportData".into(), vec![], rd)
        };
        let concrete2 = concrete.clone();
        let hook2 = move |_: &Evaluator, name: &str, a: &[Val]| -> Option<Result<Val, String>> {
            match (name, a.first()) {
                (".into", Some(Val::Opaque(s))) | ("ReportData::from", Some(Val::Opaque(s))) | ("From::from", Some(Val::Opaque(s))) if s == "error-tree" => Some(Ok(concrete2.clone())),
                _ => None,
            }
        };
        let ev2 = Evaluator { consts: &consts, call_hook: &hook2, inline: None };
        let _ = (&ev, &report);
        for variant in ["Error", "Failure"] {
            ctx.oblige("C17.same", &format!("lexer-error:{}", variant), true);
            let mut env = Env::new();
            env.insert(param.clone(), Val::Ctor(variant.into(), vec![Val::Opaque("error-tree".into())], Map::new()));
            let le = match ev2.eval_fn_body(&f.block, &mut env) {
                Ok(v @ Val::Ctor(..)) => v,
                Ok(o) => { ctx.fail_closed("C17.same", &format!("[LexerError::from {}]: {}", variant, o.show().chars().take(100).collect::<String>())); continue }
                Err(e) => { ctx.fail_closed("C17.same", &format!("[LexerError::from {}]: {}", variant, e)); continue }
            };
            // the structured report still names the failing line ..
            let rd_line = match &le { Val::Ctor(_, _, fl) => match fl.get("kind") { Some(Val::Ctor(k, p, _)) if k == "MatchingError" => match p.first() { Some(Val::Ctor(_, _, r)) => r.get("line").cloned(), _ => None }, _ => None }, _ => None };
            if rd_line != Some(Val::int(err_line as i128)) {
                ctx.violate("C17.same", &format!("lexer-error:{}:line", variant), &f.file, f.line, &format!("a nom::Err::{} becomes a LexerError whose report names line {:?}; the failing input is on line {}", variant, rd_line.map(|v| v.show()), err_line));
                continue;
            }
            // .. and contextualize() marks that line
            match eval_contextualize(m, le, &text) {
                Ok(out) => {
                    let mut labelled: Vec<(usize, String)> = vec![];
                    for l in out.lines() {
                        if let Some((lab, rest)) = l.split_once('│') {
                            if let Ok(n) = lab.trim().parse::<usize>() {
                                labelled.push((n, rest.to_string()));
                            }
                        }
                    }
                    let marked: Vec<usize> = labelled.iter().filter(|(_, t)| t.contains("FAILED AT THIS LINE")).map(|(n, _)| *n).collect();
                    let wrong: Vec<String> = labelled.iter().filter(|(n, t)| { let shown = t.split('◀').next().unwrap_or("").trim(); lines.get(n.wrapping_sub(1)).map(|src| src.trim() != shown).unwrap_or(true) }).map(|(n, t)| format!("{} -> {:?}", n, t.trim())).collect();
                    if marked != vec![err_line] || !wrong.is_empty() {
                        ctx.violate("C17.same", &format!("lexer-error:{}:contextualize-disagrees", variant), &f.file, f.line,
                            &format!("a nom::Err::{} on line {} (column {} by Input's own counting): the structured report and Display say line {}, contextualize() marks {:?}{} — the three renderings of one error do not show the same line", variant, err_line, first_col + nth_char as i128 - 1, err_line, marked, if wrong.is_empty() { String::new() } else { format!(" and labels lines with numbers that are not theirs ({})", wrong.join(", ")) }));
                    }
                }
                Err(e) => ctx.fail_closed("C17.same", &format!("[LexerError::from {} -> contextualize]: {}", variant, e)),
            }
        }
    } else {
        ctx.fail_closed("C17.same", "anchor not found: From<nom::Err<ErrorTree>> for LexerError");
    }
    // accessors return the fields
    for (acc, fld) in [("line", "line"), ("column", "column"), ("offset", "offset"), ("context_start_line", "context_start_line"), ("context_start_offset", "context_start_offset")] {
        if let Ok(f) = m.find_fn(Some("Input"), acc, Some("input")) {
            ctx.oblige("C17.same", &format!("accessor:{}", acc), false);
            if tok(&f.block) != format!("{{self.{}}}", fld) {
                ctx.violate("C17.same", &format!("accessor:{}", acc), &f.file, f.line, &format!("Input::{}() must return the {} field", acc, fld));
            }
        }
    }

    // ---------------- C17.book ----------------
    if let Some(f) = anchor_fn(m, ctx, "C17.book", Some("Input"), "slice", Some("input")) {
        // Input::slice is evaluated on texts with LF and CRLF line ends, for every suffix slice `n..` (consuming n bytes)
        // and every prefix slice `..n` (consuming nothing), from a non-trivial starting position.
        use crate::eval::{Env, Evaluator, Val};
        use std::collections::BTreeMap;
        let consts = const_resolver(m);
        let lower = std::cell::Cell::new(0usize);
        let hook = |_: &Evaluator, name: &str, a: &[Val]| -> Option<Result<Val, String>> {
            match (name, a.first(), a.get(1)) {
                // nom::Offset for str: distance from the start of `a` to the start of its sub-slice `b`; the sub-slice is
                // the one the scenario cut out, so the distance is the scenario's lower bound
                (".offset", Some(Val::Str(_)), Some(Val::Str(_))) => Some(Ok(Val::int(lower.get() as i128))),
                (".clone", Some(v), None) => Some(Ok(v.clone())),
                _ => None,
            }
        };
        let ev = Evaluator { consts: &consts, call_hook: &hook, inline: None };
        let param = f.sig.inputs.iter().filter_map(|a| match a { syn::FnArg::Typed(t) => Some(tok(&t.pat)), _ => None }).next().unwrap_or("range".into());
        let (l0, c0, o0) = (7i128, 3i128, 100i128);
        let mk = |text: &str| {
            let mut fm = BTreeMap::new();
            fm.insert("inner".to_string(), Val::Str(text.into()));
            fm.insert("line".to_string(), Val::int(l0));
            fm.insert("column".to_string(), Val::int(c0));
            fm.insert("offset".to_string(), Val::int(o0));
            fm.insert("context_start_line".to_string(), Val::int(5));
            fm.insert("context_start_offset".to_string(), Val::int(80));
            fm.insert("src_file".to_string(), Val::some(Val::Str("file.asn".into())));
            Val::Ctor("Input".into(), vec![], fm)
        };
        let get = |v: &Val, k: &str| -> Option<Val> { match v { Val::Ctor(_, _, fm) => fm.get(k).cloned(), _ => None } };
        let mut n_eval = 0;
        let mut reported: std::collections::BTreeSet<&str> = std::collections::BTreeSet::new();
        'texts: for text in ["A ::= B\nC ::= D\n", "x\r\ny\r\n\r\nz", "-- c\r\n\n\nT", "no line break", "\n", "a\rb\nc"] {
            for n in 0..=text.len() {
                for suffix in [true, false] {
                    let range = if suffix { Val::Ctor("$range".into(), vec![Val::int(n as i128), Val::Unit], BTreeMap::new()) } else { Val::Ctor("$range".into(), vec![Val::int(0), Val::int(n as i128)], BTreeMap::new()) };
                    let mut env = Env::new();
                    env.insert("self".into(), mk(text));
                    env.insert(param.clone(), range);
                    n_eval += 1;
                    lower.set(if suffix { n } else { 0 });
                    let r = match ev.eval_fn_body(&f.block, &mut env) {
                        Ok(r) => r,
                        Err(e) => {
                            ctx.fail_closed("C17.book", &format!("[slice {:?} {}{}]: {}", text, if suffix { format!("{}..", n) } else { format!("..{}", n) }, "", e));
                            break 'texts;
                        }
                    };
                    let consumed = if suffix { n } else { 0 };
                    let want_line = l0 + text[..consumed].matches('\n').count() as i128;
                    let want_off = o0 + consumed as i128;
                    let want_inner = if suffix { &text[n..] } else { &text[..n] };
                    let what = format!("slice({}) of {:?} at line {}, offset {}", if suffix { format!("{}..", n) } else { format!("..{}", n) }, text, l0, o0);
                    let mut bad = |key: &'static str, msg: String| {
                        if reported.insert(key) {
                            ctx.violate("C17.book", &format!("slice:{}", key), &f.file, f.line, &msg);
                        }
                    };
                    if get(&r, "line") != Some(Val::int(want_line)) {
                        bad("line-breaks", format!("{}: the new line is {:?}; it must be the old line plus the number of '\\n' in exactly the {} consumed bytes = {} (a CR LF pair is one line break, a lone CR none)", what, get(&r, "line").map(|v| v.show()), consumed, want_line));
                    }
                    if get(&r, "offset") != Some(Val::int(want_off)) {
                        bad("offset", format!("{}: the new offset is {:?}; it must be the old offset plus the consumed length = {}", what, get(&r, "offset").map(|v| v.show()), want_off));
                    }
                    if get(&r, "inner") != Some(Val::Str(want_inner.to_string())) {
                        bad("inner", format!("{}: the remaining text is {:?}, expected {:?}", what, get(&r, "inner").map(|v| v.show()), want_inner));
                    }
                    if consumed == 0 && get(&r, "column") != Some(Val::int(c0)) {
                        bad("zero-step", format!("{}: a zero-length step must copy line, column and offset unchanged (column became {:?})", what, get(&r, "column").map(|v| v.show())));
                    }
                    if get(&r, "context_start_line") != Some(Val::int(5)) || get(&r, "context_start_offset") != Some(Val::int(80)) {
                        bad("context-kept", format!("{}: slicing must not move the context start", what));
                    }
                    if get(&r, "src_file") != Some(Val::some(Val::Str("file.asn".into()))) {
                        bad("path-kept", format!("{}: slicing must keep the source path", what));
                    }
                }
            }
        }
        ctx.oblige_n("C17.book/slice-evaluations", n_eval);
        for k in ["line-breaks", "offset", "inner", "zero-step", "context-kept", "path-kept"] {
            ctx.oblige("C17.book", &format!("slice:{}", k), true);
        }
        ctx.floor("C17.book/slice-evaluations", n_eval, 100);
    }
    // the excerpt printed by contextualize() starts at the context start: contextualize numbers the excerpt's lines
    // from context_start_line, so the excerpt helper must return a prefix of the text it is given
    if let Some(f) = m.fns.iter().find(|f| f.name == "until_next_unindented" && f.module.starts_with("lexer")) {
        use crate::eval::{Env, Evaluator, Val};
        ctx.func(&f.key);
        let consts = const_resolver(m);
        let hook = |_: &Evaluator, name: &str, a: &[Val]| -> Option<Result<Val, String>> {
            match (name, a.first()) {
                (".unwrap_or_default", Some(Val::Ctor(n, _, _))) if n == "None" => Some(Ok(Val::Str(String::new()))),
                _ => None,
            }
        };
        let ev = Evaluator { consts: &consts, call_hook: &hook, inline: None };
        let params: Vec<String> = f.sig.inputs.iter().filter_map(|a| match a { syn::FnArg::Typed(t) => Some(tok(&t.pat)), _ => None }).collect();
        let long: String = (0..40).map(|i| format!("T{} ::= INTEGER (0..{})
", i, i)).collect::<String>() + "Bad ::= SEQUENCE {
  a INTEGER DEFAULT
}
Next ::= BOOLEAN
";
        let texts: Vec<(String, usize)> = vec![
            ("A ::= INTEGER
B ::= §
C ::= BOOLEAN
".to_string(), 20),
            ("A ::= SEQUENCE {
  a §
}
B ::= BOOLEAN".to_string(), 22),
            (long.clone(), long.find("DEFAULT").unwrap() + 8),
            ("short".to_string(), 5),
            // the context of an assignment begins behind the previous one: with the line break(s) that separate the two
            ("\n\nB ::= § BOOLEAN\n  END\n".to_string(), 10),
            ("\r\n  B ::= §".to_string(), 11),
            ("é §".to_string(), 3),
            (String::new(), 1),
        ];
        let mut n = 0;
        for (text, at) in &texts {
            for fallback in [10usize, 300] {
                n += 1;
                ctx.oblige("C17.same", &format!("excerpt-is-prefix:{}:{}", text.len(), fallback), true);
                let mut env = Env::new();
                env.insert(params.first().cloned().unwrap_or("input".into()), Val::Str(text.clone()));
                env.insert(params.get(1).cloned().unwrap_or("at_least_until".into()), Val::int(*at as i128));
                env.insert(params.get(2).cloned().unwrap_or("fallback_len".into()), Val::int(fallback as i128));
                match ev.eval_fn_body(&f.block, &mut env) {
                    Ok(Val::Str(r)) => {
                        // leading blanks may be stripped, leading *line breaks* may not: the lines of the excerpt are numbered
                        // from context_start_line, and a dropped line break shifts every label
                        let lead = |t: &str| t.len() - t.trim_start().len();
                        let dropped_breaks = lead(text) >= lead(&r) && text[..lead(text) - lead(&r)].contains('\n');
                        if !text.trim_start().starts_with(r.trim_start()) || (!text.starts_with(r.as_str()) && dropped_breaks) {
                            ctx.violate("C17.same", "contextualize-excerpt-start", &f.file, f.line,
                                &format!("until_next_unindented returns an excerpt that does not start at the start of the text it is given (text of {} bytes, error {} bytes in: excerpt starts with {:?}): contextualize() numbers the excerpt's lines from context_start_line, so every label — and the FAILED AT THIS LINE marker — is off by the number of dropped lines", text.len(), at, r.chars().take(30).collect::<String>()));
                            break;
                        }
                    }
                    Ok(o) => { ctx.fail_closed("C17.same", &format!("[until_next_unindented]: {}", o.show().chars().take(100).collect::<String>())); break }
                    Err(e) => { ctx.fail_closed("C17.same", &format!("[until_next_unindented {} bytes at {}]: {}", text.len(), at, e)); break }
                }
            }
        }
        ctx.floor("C17.same/excerpt-evaluations", n, 10);
    } else {
        ctx.fail_closed("C17.same", "anchor not found: lexer::util::until_next_unindented");
    }
    // who may write the position fields: struct literals `Input { .. }` and assignments to .line/.offset/.column
    let mut writers = vec![];
    for f in m.fns.iter().filter(|f| f.krate == "rasn-compiler") {
        let b = tok(&f.block);
        // a struct literal of Input (`Input { .. }`, or `Self { .. }` inside an impl of Input), whatever the order of its fields
        struct L { me: bool, hit: bool }
        impl model::DeepCb for L {
            fn expr(&mut self, e: &syn::Expr) {
                if let syn::Expr::Struct(st) = e {
                    let n = st.path.segments.last().map(|x| x.ident.to_string()).unwrap_or_default();
                    if n == "Input" || (n == "Self" && self.me) {
                        self.hit = true;
                    }
                }
            }
        }
        let mut l = L { me: f.self_ty.as_deref() == Some("Input"), hit: false };
        model::deep_walk_block(&f.block, &mut l);
        let lit = l.hit;
        let assign = [".line=", ".offset=", ".column=", ".line+=", ".offset+=", ".column+="].iter().any(|p| b.contains(p) && !b.contains(&format!("{}=", p)));
        if lit || (assign && f.module == "input") {
            writers.push(f.key.clone());
        }
    }
    writers.sort();
    ctx.sample(json!({"position_writers": writers}));
    for w in &writers {
        ctx.oblige("C17.book", &format!("writer:{}", w), true);
        let allowed = w.ends_with("Input::slice") || w.contains("<Input as From<") || w.ends_with("Input::with_line_column_and_offset");
        if !allowed {
            ctx.violate("C17.book", &format!("writer:{}", w), "rasn-compiler/src/input.rs", 0, &format!("`{}` constructs or mutates an Input position: only the constructors and Input::slice may", w));
        }
    }
    ctx.floor("C17.book/position-writers", writers.len(), 3);
    // a hand-written parser hands on the *rest of its input*: a slice of the Input it was given (which keeps line, column,
    // offset, context start and source path) — never an Input built afresh from text, which restarts at line 1, offset 0
    {
        let mut results = 0;
        for f in m.fns.iter().filter(|f| f.krate == "rasn-compiler" && f.module.starts_with("lexer") && !f.module.contains("tests")) {
            struct R { out: Vec<(String, usize)> }
            impl model::DeepCb for R {
                fn expr(&mut self, e: &syn::Expr) {
                    if let syn::Expr::Call(c) = e {
                        if tok(&c.func) == "Ok" && c.args.len() == 1 {
                            if let syn::Expr::Tuple(t) = &c.args[0] {
                                if t.elems.len() == 2 {
                                    self.out.push((tok(&t.elems[0]), model::line_of(syn::spanned::Spanned::span(c))));
                                }
                            }
                        }
                    }
                }
            }
            let mut r = R { out: vec![] };
            model::deep_walk_block(&f.block, &mut r);
            for (rest, line) in r.out {
                results += 1;
                let fresh = rest.ends_with(".into()") || rest.starts_with("Input::from(") || rest.starts_with("Input::new(") || rest.ends_with(".into_input()");
                // the empty rest at the very end of the text carries no position any error could be reported at
                if fresh && rest != "\"\".into()" {
                    ctx.violate("C17.book", &format!("rest-of-input-built-afresh:{}", f.name), &f.file, line,
                        &format!("`{}` returns `{}` as the rest of its input: an Input converted from text starts again at line 1, column 1, offset 0 without source path, so every error reported further on is positioned relative to this place instead of the file; the rest must be a slice of the Input the parser was given", f.name, rest));
                }
            }
        }
        ctx.oblige("C17.book", "rest-of-input", true);
        ctx.floor("C17.book/hand-written-parser-results", results, 5);
    }
    book_evaluated(m, ctx);
    // applied at the assignment boundaries of the lexer
    let mut applied = vec![];
    for f in m.fns.iter().filter(|f| f.module.starts_with("lexer")) {
        let n = model::calls_in(&f.block).iter().filter(|c| model::callee_name(c).as_deref() == Some("context_boundary")).count();
        if n > 0 {
            applied.push((f.name.clone(), n));
        }
    }
    let total: usize = applied.iter().map(|x| x.1).sum();
    ctx.floor("C17.book/context_boundary-applications", total, 8);
    for need in ["top_level_value_declaration", "module_header"] {
        ctx.oblige("C17.book", &format!("boundary:{}", need), true);
        if !applied.iter().any(|(n, _)| n == need) {
            ctx.violate("C17.book", &format!("boundary:{}", need), "rasn-compiler/src/lexer/mod.rs", 0, &format!("{} no longer resets the error context at its first token: reported excerpts would start at an earlier definition", need));
        }
    }
    ctx.sample(json!({"context_boundary_applied_in": applied}));

    // ---------------- C17.path ----------------
    path_evaluated(m, ctx);
    // the text the lexer sees is the source as given: reported offsets and lines are positions in the user's file /
    // literal, so nothing between reading the source and building the Input may rewrite the text
    if let Some(f) = m.fns.iter().find(|f| f.name == "try_from" && f.self_ty.as_deref() == Some("AsnSourceUnit")) {
        let rewriting = ["replace", "replacen", "replace_range", "trim", "trim_start", "trim_end", "trim_matches", "trim_start_matches", "trim_end_matches", "to_lowercase", "to_uppercase", "to_ascii_lowercase", "to_ascii_uppercase", "retain", "remove", "truncate", "push", "push_str", "insert", "insert_str", "lines", "split", "split_whitespace", "filter", "strip_prefix", "strip_suffix", "drain", "chars", "bytes", "from_utf8_lossy", "escape_default", "normalize"];
        let mut seen: std::collections::BTreeSet<String> = std::collections::BTreeSet::new();
        let mut work: Vec<&crate::model::FnInfo> = vec![f];
        let mut n_fns = 0;
        while let Some(g) = work.pop() {
            if !seen.insert(g.key.clone()) || n_fns > 12 {
                continue;
            }
            n_fns += 1;
            ctx.oblige("C17.path", &format!("source-text-unchanged:{}", g.name), true);
            for mc in model::method_calls_in(&g.block) {
                let n = mc.method.to_string();
                if rewriting.contains(&n.as_str()) {
                    ctx.violate("C17.path", &format!("source-text-rewritten:{}:{}", g.name, n), &g.file, model::line_of(syn::spanned::Spanned::span(&mc)),
                        &format!("`{}` applies `.{}(..)` to the source text on its way to the lexer: the reported byte offset and line are then positions in the rewritten text, not in the file / literal the user gave (for a CRLF file the offset lands before the error and no longer matches the line)", g.name, n));
                }
            }
            // helpers of the same crate called from here (free fns and associated fns, by unique name)
            for c in model::calls_in(&g.block) {
                if let Some(n) = model::callee_name(&c) {
                    let cands: Vec<&crate::model::FnInfo> = m.fns.iter().filter(|h| h.name == n && h.krate == "rasn-compiler" && h.self_ty.is_none()).collect();
                    if cands.len() == 1 {
                        work.push(cands[0]);
                    }
                }
            }
        }
    }
}


/// contextualize() evaluated on a LexerError value and a source text (until_next_unindented followed)
fn eval_contextualize(m: &Model, lexer_error: crate::eval::Val, text: &str) -> Result<String, String> {
    use crate::eval::{Env, Evaluator, Val};
    let f = m.fns.iter().find(|f| f.name == "contextualize" && f.self_ty.as_deref() == Some("LexerError")).ok_or("anchor not found: LexerError::contextualize")?;
    let consts = const_resolver(m);
    let helper = m.fns.iter().find(|g| g.name == "until_next_unindented" && g.module.starts_with("lexer"));
    let hook = |ev: &Evaluator, name: &str, a: &[Val]| -> Option<Result<Val, String>> {
        match name {
            "until_next_unindented" => {
                let h = helper?;
                let ps: Vec<String> = h.sig.inputs.iter().filter_map(|x| match x { syn::FnArg::Typed(t) => Some(tok(&t.pat)), _ => None }).collect();
                let mut env = Env::new();
                for (p, v) in ps.iter().zip(a.iter()) {
                    env.insert(p.clone(), v.clone());
                }
                Some(ev.eval_fn_body(&h.block, &mut env))
            }
            ".unwrap_or_default" if matches!(a.first(), Some(Val::Ctor(n, _, _)) if n == "None") => Some(Ok(Val::Str(String::new()))),
            _ => None,
        }
    };
    let ev = Evaluator { consts: &consts, call_hook: &hook, inline: None };
    let param = f.sig.inputs.iter().filter_map(|a| match a { syn::FnArg::Typed(t) => Some(tok(&t.pat)), _ => None }).next().unwrap_or("input".into());
    let mut env = Env::new();
    env.insert("self".into(), lexer_error);
    env.insert(param, Val::Str(text.to_string()));
    match ev.eval_fn_body(&f.block, &mut env)? {
        Val::Str(s) | Val::Sym(s) => Ok(s),
        o => Err(format!("contextualize returned {}", o.show().chars().take(80).collect::<String>())),
    }
}

/// Input::slice evaluated on "ab\ncd" consuming "ab\n": the column Input assigns to the first character of the second line
fn first_column_after_break(m: &Model) -> Option<i128> {
    use crate::eval::{Env, Evaluator, Val};
    use std::collections::BTreeMap;
    let f = m.fns.iter().find(|f| f.name == "slice" && f.self_ty.as_deref() == Some("Input") && f.module == "input")?;
    let consts = const_resolver(m);
    let hook = |_: &Evaluator, name: &str, a: &[Val]| -> Option<Result<Val, String>> {
        match (name, a.first(), a.get(1)) {
            (".offset", Some(Val::Str(_)), Some(Val::Str(_))) => Some(Ok(Val::int(3))),
            (".clone", Some(v), None) => Some(Ok(v.clone())),
            _ => None,
        }
    };
    let ev = Evaluator { consts: &consts, call_hook: &hook, inline: None };
    let param = f.sig.inputs.iter().filter_map(|a| match a { syn::FnArg::Typed(t) => Some(tok(&t.pat)), _ => None }).next().unwrap_or("range".into());
    let mut fm = BTreeMap::new();
    fm.insert("inner".to_string(), Val::Str("ab\ncd".into()));
    for (k, v) in [("line", 1), ("column", 1), ("offset", 0), ("context_start_line", 1), ("context_start_offset", 0)] {
        fm.insert(k.to_string(), Val::int(v));
    }
    fm.insert("src_file".to_string(), Val::none());
    let mut env = Env::new();
    env.insert("self".into(), Val::Ctor("Input".into(), vec![], fm));
    env.insert(param, Val::Ctor("$range".into(), vec![Val::int(3), Val::Unit], BTreeMap::new()));
    match ev.eval_fn_body(&f.block, &mut env).ok()? {
        Val::Ctor(_, _, r) => match r.get("column") { Some(Val::Int { v, .. }) => Some(*v), _ => None },
        _ => None,
    }
}

fn input_val(text: &str, file: Option<&str>, line: i128, column: i128, offset: i128, cs_line: i128, cs_offset: i128) -> crate::eval::Val {
    use crate::eval::Val;
    let mut fm = std::collections::BTreeMap::new();
    fm.insert("inner".to_string(), Val::Str(text.into()));
    for (k, v) in [("line", line), ("column", column), ("offset", offset), ("context_start_line", cs_line), ("context_start_offset", cs_offset)] {
        fm.insert(k.to_string(), Val::int(v));
    }
    fm.insert("src_file".to_string(), file.map(|f| Val::some(Val::Str(f.into()))).unwrap_or(Val::none()));
    Val::Ctor("Input".into(), vec![], fm)
}

fn field_int(v: &crate::eval::Val, name: &str) -> Option<i128> {
    match v {
        crate::eval::Val::Ctor(_, _, f) => match f.get(name) { Some(crate::eval::Val::Int { v, .. }) => Some(*v), _ => None },
        _ => None,
    }
}

fn field_of<'v>(v: &'v crate::eval::Val, name: &str) -> Option<&'v crate::eval::Val> {
    match v { crate::eval::Val::Ctor(_, _, f) => f.get(name), _ => None }
}

fn params_of(f: &crate::model::FnInfo) -> Vec<String> {
    f.sig.inputs.iter().filter_map(|a| match a { syn::FnArg::Typed(t) => Some(tok(&t.pat).replace("mut ", "")), _ => None }).collect()
}

/// C17.book, evaluated: Input's constructors start at (1, 1, 0) with the context start at (1, 0) and keep the text;
/// reset_context copies the current line / offset into the context start and nothing else; the parser context_boundary
/// builds hands its inner parser the input it was given with the context start moved to the current position.
fn book_evaluated(m: &Model, ctx: &mut Ctx) {
    use crate::eval::{Env, Evaluator, Val};
    let consts = const_resolver(m);
    let inl = inline_all(m, &["Input"]);
    let hook = |_: &Evaluator, name: &str, a: &[Val]| -> Option<Result<Val, String>> {
        match name {
            // the inner parser is applied to the input it is handed: the rule observes that input
            ".parse" if a.len() == 2 => Some(Ok(a[1].clone())),
            ".starts_with" | ".ends_with" if a.len() == 2 && matches!(&a[0], Val::Str(_)) => {
                let Val::Str(t) = &a[0] else { return None };
                let test = |pat: &str| if name == ".starts_with" { t.starts_with(pat) } else { t.ends_with(pat) };
                match &a[1] {
                    Val::Str(p) => Some(Ok(Val::Bool(test(p)))),
                    Val::Char(c) => Some(Ok(Val::Bool(test(&c.to_string())))),
                    Val::List(cs) => Some(Ok(Val::Bool(cs.iter().any(|c| matches!(c, Val::Char(ch) if test(&ch.to_string())))))),
                    _ => None,
                }
            }
            ".inner" | ".into_inner" if a.len() == 1 => field_of(&a[0], "inner").cloned().map(Ok),
            ".is_empty" if a.len() == 1 && matches!(&a[0], Val::Str(_)) => match &a[0] { Val::Str(t) => Some(Ok(Val::Bool(t.is_empty()))), _ => None },
            ".as_ref" | ".as_str" | ".borrow" | ".deref" if a.len() == 1 => Some(Ok(a[0].clone())),
            _ => None,
        }
    };
    let ev = Evaluator { consts: &consts, call_hook: &hook, inline: Some(&inl) };
    let mut n = 0;
    for f in m.fns.iter().filter(|f| f.name == "from" && f.self_ty.as_deref() == Some("Input") && f.module == "input") {
        ctx.func(&f.key);
        let key = format!("ctor:{}", f.key);
        ctx.oblige("C17.book", &key, true);
        let from_unit = f.trait_.as_deref().map(|t| t.contains("AsnSourceUnit")).unwrap_or(false);
        let arg = if from_unit {
            let mut fm = std::collections::BTreeMap::new();
            fm.insert("path".to_string(), Val::some(Val::Str("dir/x.asn".into())));
            fm.insert("source".to_string(), Val::Str("A ::= B\nC ::= D".into()));
            Val::Ctor("AsnSourceUnit".into(), vec![], fm)
        } else {
            Val::Str("A ::= B\nC ::= D".into())
        };
        let mut env = Env::new();
        for p in params_of(f) {
            env.insert(p, arg.clone());
        }
        match ev.eval_fn_body(&f.block, &mut env) {
            Ok(v @ Val::Ctor(..)) => {
                n += 1;
                let got: Vec<Option<i128>> = ["line", "column", "offset", "context_start_line", "context_start_offset"].iter().map(|k| field_int(&v, k)).collect();
                if got != vec![Some(1), Some(1), Some(0), Some(1), Some(0)] {
                    ctx.violate("C17.book", &key, &f.file, f.line, &format!("an Input starts at line 1, column 1, offset 0 with the context start at (1, 0); this constructor yields line {:?}, column {:?}, offset {:?}, context start ({:?}, {:?}) — every position reported for the source is shifted by the difference", got[0], got[1], got[2], got[3], got[4]));
                }
                if !matches!(field_of(&v, "inner"), Some(Val::Str(s)) if s == "A ::= B\nC ::= D") {
                    ctx.violate("C17.book", &format!("{}:text", key), &f.file, f.line, &format!("the Input does not hold the source text as given (inner = {}): offsets and lines are positions in another text", field_of(&v, "inner").map(|x| x.show()).unwrap_or_default()));
                }
                if from_unit {
                    ctx.oblige("C17.path", "input-path", true);
                    if !matches!(field_of(&v, "src_file"), Some(Val::Ctor(n, p, _)) if n == "Some" && matches!(p.first(), Some(Val::Str(s)) if s == "dir/x.asn")) {
                        ctx.violate("C17.path", "input-path", &f.file, f.line, &format!("the Input built from a source unit read from dir/x.asn carries src_file = {}: errors of a file source are reported without (or with another) file name", field_of(&v, "src_file").map(|x| x.show()).unwrap_or_default()));
                    }
                }
            }
            Ok(o) => ctx.fail_closed("C17.book", &format!("[{}] yields {}", f.key, o.show().chars().take(100).collect::<String>())),
            Err(e) => ctx.fail_closed("C17.book", &format!("[{}]: {}", f.key, e)),
        }
    }
    ctx.floor("C17.book/constructors-evaluated", n, 2);

    match m.find_fn(Some("Input"), "reset_context", None) {
        Ok(f) => {
            ctx.func(&f.key);
            ctx.oblige("C17.book", "reset_context", true);
            // whatever the rest of the input begins with (text, a line break behind the last token of a line, nothing): the
            // context starts at the *current* position — contextualize() cuts the excerpt at context_start_offset and numbers
            // its lines from context_start_line, so the two must describe one place
            for rest in ["C ::= D", "\nC ::= D", "\r\nC ::= D", ""] {
                let before = input_val(rest, Some("dir/x.asn"), 7, 3, 42, 2, 10);
                let mut env = Env::new();
                env.insert("self".into(), before.clone());
                match ev.eval_fn_body(&f.block, &mut env) {
                    Ok(_) => {
                        let after = env.get("self").cloned().unwrap_or(Val::Unit);
                        let want = input_val(rest, Some("dir/x.asn"), 7, 3, 42, 7, 42);
                        if after != want {
                            ctx.violate("C17.book", "reset_context", &f.file, f.line, &format!("reset_context on an Input at line 7, column 3, offset 42 (context start 2 / 10, rest of the input {:?}) must move the context start to (7, 42) and change nothing else; it leaves line {:?}, column {:?}, offset {:?}, context start ({:?}, {:?}) — the excerpt of a later error is cut at one place and numbered from another", rest, field_int(&after, "line"), field_int(&after, "column"), field_int(&after, "offset"), field_int(&after, "context_start_line"), field_int(&after, "context_start_offset")));
                            break;
                        }
                    }
                    Err(e) => { ctx.fail_closed("C17.book", &format!("[reset_context, rest {:?}]: {}", rest, e)); break }
                }
            }
        }
        Err(e) => ctx.fail_closed("C17.book", &format!("anchor not found: Input::reset_context ({})", e)),
    }

    match m.find_fn(None, "context_boundary", Some("input")) {
        Ok(f) => {
            ctx.func(&f.key);
            ctx.oblige("C17.book", "context_boundary", true);
            // the parser the fn returns: its trailing closure
            let clos = f.block.stmts.last().and_then(|s| match s { syn::Stmt::Expr(e @ syn::Expr::Closure(_), None) => Some(e), _ => None });
            match clos {
                None => ctx.fail_closed("C17.book", "[context_boundary]: the fn does not end in the parser closure it returns"),
                Some(c) => {
                    let mut env = Env::new();
                    for p in params_of(f) {
                        env.insert(p, Val::Opaque("inner parser".into()));
                    }
                    let given = input_val("C ::= D", Some("dir/x.asn"), 7, 3, 42, 2, 10);
                    match ev.apply_closure(c, &[given], &env) {
                        Ok(got) => {
                            let want = input_val("C ::= D", Some("dir/x.asn"), 7, 3, 42, 7, 42);
                            if got != want {
                                ctx.violate("C17.book", "context_boundary", &f.file, f.line, &format!("context_boundary must hand its inner parser the input it was given with the context start moved to the current position (line 7, offset 42): the inner parser receives {} — the excerpt of a later error starts at an earlier definition, or the position is lost", got.show().chars().take(200).collect::<String>()));
                            }
                        }
                        Err(e) => ctx.fail_closed("C17.book", &format!("[context_boundary]: {}", e)),
                    }
                }
            }
        }
        Err(e) => ctx.fail_closed("C17.book", &format!("anchor not found: input::context_boundary ({})", e)),
    }
}

/// C17.path, evaluated: AsnSource -> AsnSourceUnit keeps the path of a file source and the text as read / given;
/// asn_spec hands the lexer an Input that carries both; Input::src_file() renders the stored path.
fn path_evaluated(m: &Model, ctx: &mut Ctx) {
    use crate::eval::{Env, Evaluator, Val};
    use std::cell::RefCell;
    let consts = const_resolver(m);
    let inl = inline_all(m, &["Input"]);
    let seen: RefCell<Vec<Val>> = RefCell::new(vec![]);
    let from_unit = m.fns.iter().find(|f| f.name == "from" && f.self_ty.as_deref() == Some("Input") && f.trait_.as_deref().map(|t| t.contains("AsnSourceUnit")).unwrap_or(false));
    let hook = |ev: &Evaluator, name: &str, a: &[Val]| -> Option<Result<Val, String>> {
        match name {
            "read_to_string" | "fs::read_to_string" | "std::fs::read_to_string" if a.len() == 1 => Some(Ok(Val::Ctor("Ok".into(), vec![Val::Str("FILE ::= TEXT\r\n".into())], Default::default()))),
            "Cow::Owned" | "Cow::Borrowed" | "Cow::from" | "String::from" if a.len() == 1 => Some(Ok(a[0].clone())),
            // a path whose name is not valid UTF-8 still has a lossy rendering; `to_str` has none
            ".to_string_lossy" | ".display" if a.len() == 1 && matches!(&a[0], Val::Ctor(n, ..) if n == "$path") => field_of(&a[0], "lossy").cloned().map(Ok),
            ".to_str" | "Path::to_str" if a.len() == 1 && matches!(&a[0], Val::Ctor(n, ..) if n == "$path") => {
                let utf8 = field_of(&a[0], "utf8") == Some(&Val::Bool(true));
                Some(Ok(if utf8 { Val::some(field_of(&a[0], "lossy").cloned().unwrap_or(Val::Unit)) } else { Val::none() }))
            }
            ".to_str" | "Path::to_str" if a.len() == 1 && matches!(&a[0], Val::Str(_)) => Some(Ok(Val::some(a[0].clone()))),
            ".to_string_lossy" | ".as_ref" | ".as_str" | ".as_path" | ".display" | ".into_owned" | ".to_path_buf" | ".deref" | ".borrow" if a.len() == 1 => Some(Ok(a[0].clone())),
            // `Input::from(&unit)` / `unit.into()`: the crate has one conversion from a source unit, From<&AsnSourceUnit> for Input
            "Input::from" | "Input::new" | ".into" | "Into::into" | "From::from" if a.len() == 1 && matches!(&a[0], Val::Ctor(n, ..) if n == "AsnSourceUnit") => {
                let f = from_unit?;
                let mut env = Env::new();
                for p in params_of(f) {
                    env.insert(p, a[0].clone());
                }
                Some(ev.eval_fn_body(&f.block, &mut env))
            }
            // the module parser: the rule observes the Input it is given and stops the loop with a failure
            "asn_module" if a.len() == 1 => {
                seen.borrow_mut().push(a[0].clone());
                Some(Ok(Val::Ctor("Err".into(), vec![Val::Ctor("Failure".into(), vec![Val::Opaque("error tree".into())], Default::default())], Default::default())))
            }
            _ => None,
        }
    };
    let ev = Evaluator { consts: &consts, call_hook: &hook, inline: Some(&inl) };

    match m.fns.iter().find(|f| f.name == "try_from" && f.self_ty.as_deref() == Some("AsnSourceUnit")) {
        None => ctx.fail_closed("C17.path", "anchor not found: TryFrom<&AsnSource> for AsnSourceUnit"),
        Some(f) => {
            ctx.func(&f.key);
            for (variant, payload, want_path, want_text) in [("Path", "dir/x.asn", Some("dir/x.asn"), "FILE ::= TEXT\r\n"), ("Literal", "LIT ::= TEXT\r\n", None, "LIT ::= TEXT\r\n")] {
                ctx.oblige("C17.path", &format!("source-unit-path:{}", variant), true);
                let mut env = Env::new();
                for p in params_of(f) {
                    env.insert(p, Val::Ctor(variant.into(), vec![Val::Str(payload.into())], Default::default()));
                }
                match ev.eval_fn_body(&f.block, &mut env) {
                    Ok(Val::Ctor(ok, p, _)) if ok == "Ok" && p.len() == 1 => {
                        let u = &p[0];
                        let path_ok = match (want_path, field_of(u, "path")) {
                            (Some(w), Some(Val::Ctor(n, pp, _))) => n == "Some" && matches!(pp.first(), Some(Val::Str(s)) if s == w),
                            (None, Some(Val::Ctor(n, _, _))) => n == "None",
                            _ => false,
                        };
                        if !path_ok {
                            ctx.violate("C17.path", "source-unit-path", &f.file, f.line, &format!("a source given as AsnSource::{} becomes a unit with path = {}: a file source must carry its path, a literal none", variant, field_of(u, "path").map(|x| x.show()).unwrap_or_default()));
                        }
                        if !matches!(field_of(u, "source"), Some(Val::Str(s)) if s == want_text) {
                            ctx.violate("C17.path", &format!("source-text-rewritten:{}", variant), &f.file, f.line, &format!("the text of an AsnSource::{} reaches the lexer as {}: reported lines and offsets must be positions in the text the user gave ({:?})", variant, field_of(u, "source").map(|x| x.show()).unwrap_or_default(), want_text));
                        }
                    }
                    Ok(o) => ctx.fail_closed("C17.path", &format!("[AsnSourceUnit::try_from {}] yields {}", variant, o.show().chars().take(100).collect::<String>())),
                    Err(e) => ctx.fail_closed("C17.path", &format!("[AsnSourceUnit::try_from {}]: {}", variant, e)),
                }
            }
        }
    }

    match m.find_fn(None, "asn_spec", Some("lexer")) {
        Err(e) => ctx.fail_closed("C17.path", &format!("anchor not found: lexer::asn_spec ({})", e)),
        Ok(f) => {
            ctx.func(&f.key);
            ctx.oblige("C17.path", "lexer-input", true);
            let mut fm = std::collections::BTreeMap::new();
            fm.insert("path".to_string(), Val::some(Val::Str("dir/x.asn".into())));
            fm.insert("source".to_string(), Val::Str("A ::= B\r\nC ::= D".into()));
            let unit = Val::Ctor("AsnSourceUnit".into(), vec![], fm);
            let mut env = Env::new();
            for p in params_of(f) {
                env.insert(p, unit.clone());
            }
            match ev.eval_fn_body(&f.block, &mut env) {
                Ok(_) => {
                    let s = seen.borrow();
                    let want = input_val("A ::= B\r\nC ::= D", Some("dir/x.asn"), 1, 1, 0, 1, 0);
                    match s.first() {
                        None => ctx.fail_closed("C17.path", "[asn_spec]: the module parser is never applied"),
                        Some(got) if *got != want => ctx.violate("C17.path", "lexer-input", &f.file, f.line, &format!("asn_spec applies the module parser to {} for a source unit read from dir/x.asn: the first module must be parsed from the whole text at line 1, column 1, offset 0 with the unit's path", got.show().chars().take(220).collect::<String>())),
                        _ => {}
                    }
                }
                Err(e) => ctx.fail_closed("C17.path", &format!("[asn_spec]: {}", e)),
            }
        }
    }

    match m.find_fn(Some("Input"), "src_file", None) {
        Err(e) => ctx.fail_closed("C17.path", &format!("anchor not found: Input::src_file ({})", e)),
        Ok(f) => {
            ctx.func(&f.key);
            for (file, utf8) in [(Some("dir/x.asn"), true), (Some("dir/x\u{fffd}.asn"), false), (None, true)] {
                ctx.oblige("C17.path", &format!("src_file-accessor:{}:{}", file.is_some(), utf8), true);
                let mut env = Env::new();
                let mut me = input_val("x", file, 1, 1, 0, 1, 0);
                if let (Val::Ctor(_, _, fm), Some(fl)) = (&mut me, file) {
                    let mut pm = std::collections::BTreeMap::new();
                    pm.insert("lossy".to_string(), Val::Str(fl.into()));
                    pm.insert("utf8".to_string(), Val::Bool(utf8));
                    fm.insert("src_file".to_string(), Val::some(Val::Ctor("$path".into(), vec![], pm)));
                }
                env.insert("self".into(), me);
                match ev.eval_fn_body(&f.block, &mut env) {
                    Ok(v) => {
                        let ok = match (file, &v) {
                            (Some(w), Val::Ctor(n, p, _)) => n == "Some" && matches!(p.first(), Some(Val::Str(s)) if s == w),
                            (None, Val::Ctor(n, _, _)) => n == "None",
                            _ => false,
                        };
                        if !ok {
                            ctx.violate("C17.path", "src_file-accessor", &f.file, f.line, &format!("Input::src_file() of an input read from {:?}{} yields {}: the error report names another file or none", file, if utf8 { "" } else { " (a name that is not valid UTF-8; U+FFFD stands for the offending bytes)" }, v.show()));
                        }
                    }
                    Err(e) => ctx.fail_closed("C17.path", &format!("[Input::src_file]: {}", e)),
                }
            }
        }
    }
}
