//! C11 — the result is a deterministic function of the set of definitions.
//!
//! Effects analysis over the MIR of every body reachable from the API: no iteration over a hashed
//! container, no mutable / interior-mutable process-wide state, no read of environment, clock,
//! thread identity, addresses or randomness on the compile path (the audited rustfmt lookup aside),
//! and the containers that carry definitions between stages are ordered maps keyed by name.
use crate::mir::Facts;
use crate::model::{self, tok, Model};
use crate::report::Ctx;
use crate::rules::c08;
use serde_json::json;

pub fn hashed_iteration(callee: &str) -> Option<&'static str> {
    let c = callee;
    let hashy = c.contains("collections::HashMap") || c.contains("collections::HashSet") || c.contains("hash_map::") || c.contains("hash_set::") || c.contains("hash::map::") || c.contains("hash::set::");
    if !hashy {
        return None;
    }
    let last = c.rsplit("::").next().unwrap_or("");
    const ITER: [&str; 16] = [
        "iter", "iter_mut", "into_iter", "keys", "values", "values_mut", "into_keys", "into_values", "drain", "retain", "extract_if", "next", "for_each", "fold", "difference", "union",
    ];
    if ITER.contains(&last) || last == "intersection" || last == "symmetric_difference" {
        return Some("iteration over a hashed container");
    }
    None
}

pub fn ambient_read(callee: &str) -> Option<&'static str> {
    let c = callee;
    const PATS: [(&str, &str); 18] = [
        ("std::env::var", "environment variable"),
        ("std::env::vars", "environment variables"),
        ("std::env::args", "process arguments"),
        ("std::env::current_dir", "current directory"),
        ("std::env::current_exe", "executable path"),
        ("std::env::temp_dir", "temp dir"),
        ("std::env::home_dir", "home dir"),
        ("std::time::SystemTime::now", "wall clock"),
        ("std::time::Instant::now", "monotonic clock"),
        ("std::thread::current", "thread identity"),
        ("std::thread::Thread::id", "thread identity"),
        ("std::process::id", "process id"),
        ("core::fmt::Pointer", "address formatting ({:p})"),
        ("std::fmt::Pointer", "address formatting ({:p})"),
        ("rand::", "random number generator"),
        ("std::fs::read_dir", "directory listing order"),
        ("std::hash::RandomState::hash_one", "randomly keyed hash value"),
        ("std::hash::BuildHasher::hash_one", "randomly keyed hash value"),
    ];
    for (p, what) in PATS {
        if c.starts_with(p) || (p.ends_with("::") && c.contains(p)) || c.contains(&format!("<{}", p)) || c.contains(&format!(" as {}", p)) {
            return Some(what);
        }
    }
    None
}

/// audited exceptions: (owner fn suffix, what) with the reason
const ALLOWED_AMBIENT: [(&str, &str, &str); 1] = [(
    "generator::rasn::Rasn::get_rustfmt_path",
    "environment variable",
    "locating rustfmt through CARGO_HOME/CARGO: the property itself sets rustfmt's availability aside (formatting is applied to finished text)",
)];

/// C11.comments: the comments in front of an assignment are part of its output (doc comments). A type or value parser that
/// ends in `skip_ws_and_comments(<something that may match nothing>)` consumes the trivia *behind* the assignment even when
/// nothing follows — i.e. the comments of whichever assignment comes next — so the generated text depends on the order of
/// the assignments. Every parser in tail position of a top-level assignment is checked: its last element must not be a
/// trivia-skipping wrapper around a nullable parser (`opt`, `many0`, `success`); the wrapper belongs inside the `opt`.
pub fn trailing_trivia(m: &Model, ctx: &mut Ctx, rule: &str) {
    use std::collections::BTreeSet;
    let lexer: Vec<&crate::model::FnInfo> = m.fns.iter().filter(|f| f.krate == "rasn-compiler" && f.module.starts_with("lexer") && !f.module.contains("tests")).collect();
    let by_name = |n: &str| lexer.iter().find(|f| f.name == n).cloned();
    // tail expressions of a parser expression (through the sequencing and mapping combinators)
    fn tails<'e>(e: &'e syn::Expr, out: &mut Vec<&'e syn::Expr>) {
        use syn::Expr;
        match e {
            Expr::Paren(p) => tails(&p.expr, out),
            Expr::MethodCall(mc) if ["parse", "map", "map_res", "and_then", "into"].contains(&mc.method.to_string().as_str()) => tails(&mc.receiver, out),
            Expr::Tuple(t) => { if let Some(l) = t.elems.last() { tails(l, out) } }
            Expr::Call(c) => {
                let name = model::callee_name(c).unwrap_or_default();
                let args: Vec<&syn::Expr> = c.args.iter().collect();
                match (name.as_str(), args.len()) {
                    ("map" | "map_res" | "into" | "map_into" | "cut" | "context_boundary" | "recognize" | "into_inner", n) if n >= 1 => tails(args[0], out),
                    ("value", 2) => tails(args[1], out),
                    ("preceded" | "terminated" | "pair" | "separated_pair", n) if n >= 2 => tails(args[n - 1], out),
                    ("delimited", 3) => tails(args[2], out),
                    ("alt", _) => match args.first() { Some(Expr::Tuple(t)) => for a in t.elems.iter() { tails(a, out) }, _ => {} },
                    _ => out.push(e),
                }
            }
            _ => out.push(e),
        }
    }
    let roots = ["top_level_type_declaration", "top_level_value_declaration", "top_level_information_declaration", "top_level_information_object_declaration", "top_level_object_set_declaration", "top_level_class_declaration"];
    let mut seen: BTreeSet<String> = BTreeSet::new();
    let mut work: Vec<String> = roots.iter().map(|s| s.to_string()).collect();
    // every alternative of the module parser's list of assignments is a root (MACRO definitions, class assignments, ..)
    match by_name("asn_module") {
        Some(am) => {
            let mut found = 0;
            for c in model::calls_in(&am.block) {
                if model::callee_name(&c).as_deref() != Some("many0") {
                    continue;
                }
                struct P { out: Vec<String> }
                impl model::DeepCb for P {
                    fn expr(&mut self, e: &syn::Expr) {
                        if let syn::Expr::Call(c) = e {
                            if model::callee_name(c).as_deref() == Some("map") {
                                if let Some(syn::Expr::Path(p)) = c.args.first() {
                                    if let Some(id) = p.path.segments.last() {
                                        self.out.push(id.ident.to_string());
                                    }
                                }
                            }
                        }
                    }
                }
                let mut p = P { out: vec![] };
                if let Some(a) = c.args.first() {
                    model::deep_walk_expr(a, &mut p);
                }
                found += p.out.len();
                work.extend(p.out);
            }
            ctx.floor(&format!("{}/assignment-alternatives", rule), found, 5);
        }
        None => ctx.fail_closed(rule, "anchor not found: lexer::asn_module"),
    }
    let mut checked = 0;
    while let Some(n) = work.pop() {
        if !seen.insert(n.clone()) {
            continue;
        }
        let Some(f) = by_name(&n) else { continue };
        let Some(syn::Stmt::Expr(tail, None)) = f.block.stmts.last() else { continue };
        checked += 1;
        ctx.oblige(rule, &n, false);
        // (violations, named parsers in tail position)
        fn visit(e: &syn::Expr, viol: &mut Vec<(String, String, usize)>, next: &mut Vec<String>, depth: usize) {
            if depth > 12 {
                return;
            }
            let mut ts = vec![];
            tails(e, &mut ts);
            for t in ts {
                match t {
                    syn::Expr::Path(p) => {
                        if let Some(id) = p.path.segments.last() {
                            next.push(id.ident.to_string());
                        }
                    }
                    syn::Expr::Call(c) => {
                        let name = model::callee_name(c).unwrap_or_default();
                        let args: Vec<&syn::Expr> = c.args.iter().collect();
                        if (name == "skip_ws_and_comments" || name == "skip_ws") && args.len() == 1 {
                            let inner = args[0];
                            let inner_name = match inner { syn::Expr::Call(ic) => model::callee_name(ic).unwrap_or_default(), syn::Expr::Path(p) => p.path.segments.last().map(|s| s.ident.to_string()).unwrap_or_default(), _ => String::new() };
                            if ["opt", "many0", "success", "many0_count", "fold_many0"].contains(&inner_name.as_str()) {
                                viol.push((name.clone(), inner_name, model::line_of(syn::spanned::Spanned::span(c))));
                            } else {
                                visit(inner, viol, next, depth + 1);
                            }
                        } else if ["opt", "many0", "many1", "cut", "many0_count", "recognize"].contains(&name.as_str()) {
                            if let Some(a) = args.first() {
                                // a repetition of comments (and white space) in tail position eats the comments in front of
                                // whatever comes next: `tag(END)` followed by `many0(alt((comment, multispace1)))` is right at the
                                // end of a module and wrong at the end of a definition inside one
                                let body = model::tok(*a);
                                let eats_comments = ["comment", "line_comment", "block_comment"].iter().any(|c| body == *c || body.contains(&format!("({}", c)) || body.contains(&format!(",{}", c)) || body.contains(&format!("({},", c)));
                                if ["opt", "many0", "many1", "many0_count"].contains(&name.as_str()) && eats_comments {
                                    viol.push((name.clone(), "comment".into(), model::line_of(syn::spanned::Spanned::span(c))));
                                } else {
                                    visit(a, viol, next, depth + 1);
                                }
                            }
                        }
                    }
                    _ => {}
                }
            }
        }
        let mut viol = vec![];
        let mut next = vec![];
        visit(tail, &mut viol, &mut next, 0);
        work.extend(next);
        for (name, inner_name, line) in viol {
            ctx.violate(rule, &format!("trailing-trivia-consumed:{}", n), &f.file, line,
                &format!("`{}` ends in `{}({}(..))`: the white space and comments behind the construct are consumed even when nothing follows, so the comments that document the next assignment are lost — the output depends on which assignment comes next (write `opt({}(..))`)", n, name, inner_name, name));
        }
    }
    ctx.floor(&format!("{}/tail-parsers", rule), checked, 40);
}

pub fn run(m: &Model, ctx: &mut Ctx, facts: &Facts) {
    ctx.explanation = "Effect analysis over the MIR of every body reachable from the compile entry points (same roots and call graph as C08): \
(1) C11.hash: no call that iterates a std hashed container (HashMap/HashSet iter/keys/values/drain/retain/IntoIterator/set algebra) — the only source of run-to-run order variation inside std; \
(2) C11.global: every `static` of the three crates is immutable and either Freeze or a LazyLock whose initialiser has no ambient effect; no thread_local!; \
(3) C11.ambient: no read of environment, clock, thread/process identity, pointer addresses ({:p}, pointer-to-integer casts), randomness or directory order on the compile path, except the audited rustfmt lookup; \
(4) C11.order: the containers that carry definitions across modules and stages (Validator.tlds, the module grouping map in internal_compile) are BTreeMaps keyed by name, so output order is key order and not source order. \
Together these are necessary conditions for byte-identical output under repetition, threads and permutation; equality of outputs is not itself computed. The duplicate-name (last-wins) key of the definitions map is reported under C10.key.".into();
    ctx.assumptions = vec![
        "std containers other than HashMap/HashSet iterate deterministically; BTreeMap iterates in key order".into(),
        "rustfmt availability is set aside by the property (formatting of finished text)".into(),
        "callee resolution by Instance::try_resolve; unresolved trait calls fan out to all impls (over-approximation)".into(),
    ];
    ctx.rule("per reachable MIR body: classify every call by callee path (hashed iteration / ambient read), every ptr->int cast, every static by type; syn: field/let types of the definition-carrying containers");
    // "permuting the sources gives identical bindings" presupposes that every source handed in is kept: the builder's
    // add_* methods, evaluated per typestate (the analysis lives with C20.sources)
    crate::rules::util::borrow(ctx, "C20", "C20.sources", "C11.sources", &mut |sub| crate::rules::c20::builder_sources(m, sub));

    let roots = c08::roots(facts);
    let (reach, pred) = facts.reachable(&roots);
    ctx.extra.insert("bodies_reachable".into(), json!(reach.len()));
    ctx.floor("C11/bodies-reachable", reach.len(), 800);

    // positive controls (zero-expected rules must still be able to match)
    for (c, want) in [
        ("std::collections::HashMap::<K, V, S>::iter", true),
        ("<&std::collections::HashSet<T, S> as std::iter::IntoIterator>::into_iter", true),
        ("<std::collections::hash_map::Iter<'a, K, V> as std::iter::Iterator>::next", true),
        ("std::collections::HashSet::<T, S>::contains", false),
        ("std::collections::HashSet::<T, S>::insert", false),
        ("std::collections::BTreeMap::<K, V, A>::iter", false),
    ] {
        if hashed_iteration(c).is_some() != want {
            ctx.fail_closed("C11.hash", &format!("classifier self-check failed on {}", c));
        }
    }
    for (c, want) in [("std::env::var::<&str>", true), ("std::time::Instant::now", true), ("<*const T as core::fmt::Pointer>::fmt", true), ("std::env::consts::OS", false)] {
        if ambient_read(c).is_some() != want {
            ctx.fail_closed("C11.ambient", &format!("classifier self-check failed on {}", c));
        }
    }

    let mut hash_uses = 0;
    let mut calls = 0;
    for &i in &reach {
        let b = &facts.bodies[i];
        if b.krate == "rasn_compiler_cli" {
            continue; // the CLI's own argument/dir handling is outside the library function C11 speaks about
        }
        let owner = format!("{}::{}", b.krate, c08::owner_of(&b.path));
        for bl in &b.blocks {
            for (_, k, what, _, line) in &bl.st {
                if *k == 'c' && what == "ptr2int" && !bl.macros.iter().any(|m| m == "derive") {
                    ctx.oblige("C11.ambient", &format!("{}|ptr2int", owner), true);
                    ctx.violate("C11.ambient", &format!("{}|ptr2int", owner), &b.file, *line,
                        &format!("pointer-to-integer cast in `{}`: an address is an ambient, run-dependent value; reachable via {}", owner, facts.chain(&pred, i).join(" -> ")));
                }
            }
            if bl.t != "call" || bl.cleanup {
                continue;
            }
            calls += 1;
            if bl.callee.contains("HashMap") || bl.callee.contains("HashSet") || bl.callee.contains("hash_map") || bl.callee.contains("hash_set") {
                hash_uses += 1;
                ctx.oblige("C11.hash", &format!("{}|{}", owner, bl.callee), true);
            }
            if let Some(what) = hashed_iteration(&bl.callee) {
                ctx.violate("C11.hash", &format!("{}|{}", owner, bl.callee.rsplit("::").next().unwrap_or("")), &b.file, bl.line,
                    &format!("{} (`{}`) in `{}`: HashMap/HashSet order differs between runs and processes; reachable via {}", what, bl.callee, owner, facts.chain(&pred, i).join(" -> ")));
            }
            if let Some(what) = ambient_read(&bl.callee) {
                ctx.oblige("C11.ambient", &format!("{}|{}", owner, what), true);
                let allowed = ALLOWED_AMBIENT.iter().any(|(o, w, _)| owner.ends_with(o) && *w == what);
                if !allowed {
                    ctx.violate("C11.ambient", &format!("{}|{}", owner, what), &b.file, bl.line,
                        &format!("`{}` reads {} (`{}`) on the compile path; reachable via {}", owner, what, bl.callee, facts.chain(&pred, i).join(" -> ")));
                } else {
                    ctx.sample(json!({"audited_exception": owner, "reads": what, "callee": bl.callee}));
                }
            }
        }
    }
    ctx.oblige_n("C11/calls-classified", calls);
    ctx.extra.insert("calls_classified".into(), json!(calls));
    ctx.extra.insert("hash_container_calls".into(), json!(hash_uses));
    ctx.floor("C11/calls", calls, 5000);
    ctx.oblige("C11.hash", "no-hashed-iteration-in-reachable-bodies", true);

    // ---- statics ----
    ctx.floor("C11.global/statics", facts.statics.len(), 5);
    for s in &facts.statics {
        ctx.oblige("C11.global", &s.path, true);
        let bad_inner = ["Mutex", "RwLock", "Atomic", "Cell<", "RefCell", "OnceLock", "OnceCell", "LocalKey", "UnsafeCell", "Condvar"];
        let ty_inner = s.ty.strip_prefix("std::sync::LazyLock<").unwrap_or(&s.ty);
        let is_lazy = s.ty.starts_with("std::sync::LazyLock<");
        if s.mutable {
            ctx.violate("C11.global", &format!("static-mut:{}", s.path), &s.file, s.line, &format!("`static mut {}`: mutable process-wide state makes later compilations depend on earlier ones", s.path));
        } else if bad_inner.iter().any(|b| ty_inner.contains(b)) || (!s.freeze && !is_lazy) {
            ctx.violate("C11.global", &format!("interior-mutable-static:{}", s.path), &s.file, s.line,
                &format!("static `{}` of type `{}` has interior mutability: state shared between compilations and threads", s.path, s.ty));
        }
        // initialiser closures
        for (bi, b) in facts.bodies.iter().enumerate() {
            if b.krate == s.krate && b.path.starts_with(&format!("{}::", s.path)) {
                ctx.func(&b.path);
                for bl in &b.blocks {
                    if bl.t == "call" {
                        if let Some(what) = ambient_read(&bl.callee).or(hashed_iteration(&bl.callee)) {
                            ctx.violate("C11.global", &format!("static-init-effect:{}", s.path), &b.file, bl.line,
                                &format!("initialiser of static `{}` {} (`{}`): the table would differ between processes", s.path, what, bl.callee));
                        }
                    }
                }
                let _ = bi;
            }
        }
        ctx.sample(json!({"static": s.path, "ty": s.ty, "mutable": s.mutable}));
    }
    // thread_local! in non-test source
    for f in m.fns.iter() {
        for mac in model::all_macros(&f.block) {
            if mac.path.segments.last().map(|s| s.ident == "thread_local").unwrap_or(false) {
                ctx.violate("C11.global", &format!("thread_local:{}", f.key), &f.file, f.line, "thread_local! state: results would depend on the thread a compilation runs on");
            }
        }
    }
    for md in m.macros.iter() {
        let _ = md;
    }
    for file in m.files.iter() {
        // item-level thread_local!/lazy_static! are macro items, not fns: scan item macros by text of the macro path only
        if let Ok(ast) = syn::parse_file(&file.text) {
            for it in &ast.items {
                if let syn::Item::Macro(im) = it {
                    let name = im.mac.path.segments.last().map(|s| s.ident.to_string()).unwrap_or_default();
                    if name == "thread_local" {
                        ctx.violate("C11.global", &format!("thread_local:{}", file.rel), &file.rel, 0, "thread_local! state at item level");
                    }
                }
            }
        }
    }

    // ---- order-carrying containers (syn) ----
    match m.find_struct("Validator", Some("validator")) {
        Ok(s) => {
            ctx.oblige("C11.order", "Validator.tlds", true);
            let t = s.fields.iter().find(|(n, _, _)| n == "tlds").map(|(_, t, _)| t.clone()).unwrap_or_default();
            if !t.starts_with("BTreeMap<String") {
                ctx.violate("C11.order", "Validator.tlds-not-ordered-by-name", &s.file, s.line,
                    &format!("Validator.tlds has type `{}`; the definitions map must be an ordered map keyed by name so that linking and output follow key order, not source order", t));
            }
            ctx.sample(json!({"Validator.tlds": t}));
            // no other state of the validator is ordered by input position or by hash
            for (n, t, _) in s.fields.iter() {
                ctx.oblige("C11.order", &format!("Validator.{}", n), true);
                if ["Vec<", "VecDeque<", "HashMap<", "HashSet<", "LinkedList<", "IndexMap<", "IndexSet<"].iter().any(|p| t.starts_with(p) || t.contains(&format!("::{}", p))) {
                    ctx.violate("C11.order", &format!("validator-state-in-input-order:{}", n), &s.file, s.line,
                        &format!("Validator.{} has type `{}`: state of the linker that is ordered by input position (or by hash) makes the order in which definitions are linked — and with it what a definition sees of the others — depend on the order of assignments, modules and sources", n, t));
                }
            }
        }
        Err(e) => ctx.fail_closed("C11.order", &e),
    }
    if let Ok(f) = m.find_fn(None, "internal_compile", None) {
        ctx.func(&f.key);
        ctx.oblige("C11.order", "internal_compile.grouping-map", true);
        let body = tok(&f.block);
        // the fold that groups definitions back into modules
        let ok = body.contains("BTreeMap::<String,Vec<ToplevelDefinition>>::new()");
        if !ok {
            ctx.violate("C11.order", "module-grouping-not-ordered", &f.file, f.line,
                "internal_compile no longer groups definitions into a BTreeMap<String, Vec<ToplevelDefinition>>: modules must be emitted in name order, independent of source order");
        }
        // generated modules are emitted by iterating that map
        ctx.oblige("C11.order", "internal_compile.emission-iterates-map", true);
        if !body.contains("for(_,module)in modules") {
            ctx.violate("C11.order", "emission-not-in-map-order", &f.file, f.line,
                "internal_compile must emit modules by iterating the name-ordered grouping map");
        }
    } else {
        ctx.fail_closed("C11.order", "anchor not found: internal_compile");
    }
    // the work list of Validator::link is derived from the name-keyed map and from nothing else
    if let Ok(f) = m.find_fn(Some("Validator"), "link", None) {
        ctx.func(&f.key);
        struct W { lets: Vec<(Vec<String>, String)> }
        impl model::DeepCb for W {
            fn local(&mut self, l: &syn::Local) {
                if let Some(init) = &l.init {
                    let mut names = vec![];
                    model::collect_idents(&quote::ToTokens::to_token_stream(&l.pat), &mut names);
                    self.lets.push((names, tok(&init.expr)));
                }
            }
        }
        let mut w = W { lets: vec![] };
        model::deep_walk_block(&f.block, &mut w);
        // every pass over the definitions takes its keys from a list
        let pops: Vec<String> = crate::rules::util::link_key_loops(f).into_iter().map(|l| l.work_list).collect::<std::collections::BTreeSet<_>>().into_iter().collect();
        ctx.oblige("C11.order", "link.work-list", true);
        if pops.is_empty() {
            ctx.fail_closed("C11.order", "Validator::link: no pass over a work list of definitions was found");
        }
        for wl in &pops {
            {
                let init = w.lets.iter().find(|(names, _)| names.iter().any(|n| n == wl)).map(|(_, i)| i.clone());
                match init {
                    None => ctx.fail_closed("C11.order", &format!("Validator::link: the work list `{}` has no initialiser", wl)),
                    Some(init) => {
                        let fields: std::collections::BTreeSet<String> = init.match_indices("self.").filter_map(|(i, _)| init[i + 5..].split(|c: char| !(c.is_alphanumeric() || c == '_')).next().map(|x| x.to_string())).collect();
                        if !fields.contains("tlds") || fields.iter().any(|x| x != "tlds") {
                            ctx.violate("C11.order", "link-work-list-not-from-name-order", &f.file, f.line,
                                &format!("Validator::link pops its work list `{}` from `{}` (reads self.{{{}}}): the order in which definitions are linked must be the key order of the definitions map, the only order that does not depend on where a definition stands in the input", wl, init.chars().take(120).collect::<String>(), fields.iter().cloned().collect::<Vec<_>>().join(", ")));
                        }
                    }
                }
            }
        }
    } else {
        ctx.fail_closed("C11.order", "anchor not found: Validator::link");
    }
    if let Ok(f) = m.find_fn(Some("Validator"), "validate", None) {
        ctx.func(&f.key);
        ctx.oblige("C11.order", "validate.output-order", true);
        let body = tok(&f.block);
        if !(body.contains("self.tlds.into_iter()") || body.contains("self.tlds.into_values()")) {
            ctx.violate("C11.order", "validate-output-not-in-key-order", &f.file, f.line,
                "Validator::validate must hand on the definitions by iterating the name-keyed map (key order)");
        }
    } else {
        ctx.fail_closed("C11.order", "anchor not found: Validator::validate");
    }
    trailing_trivia(m, ctx, "C11.comments");
    module_boundary(m, ctx);
}


/// C11.modules: "permuting modules inside a source" — `asn_spec` parses the modules of a source one after the other with
/// `asn_module`; what a module is must not depend on what follows it in the source. No production reachable from `asn_module`
/// may anchor on the *end of the input* (`eof`, `all_consuming`, a `many_till(.., eof)`): such a parser reads through the
/// modules behind the current one (an ENCODING-CONTROL section that runs "to the END at the end of the input" swallows them).
/// `rest` is accepted only in the line-comment parser (a comment that the input ends in).
fn module_boundary(m: &Model, ctx: &mut Ctx) {
    use std::collections::BTreeSet;
    let rule = "C11.modules";
    let lexer: Vec<&crate::model::FnInfo> = m.fns.iter().filter(|f| f.krate == "rasn-compiler" && f.module.starts_with("lexer") && !f.module.contains("tests")).collect();
    let Some(root) = lexer.iter().find(|f| f.name == "asn_module") else {
        ctx.fail_closed(rule, "anchor not found: lexer::asn_module");
        return;
    };
    let global = |names: &[String]| -> Vec<String> { names.iter().filter(|n| ["eof", "all_consuming", "rest", "rest_len"].contains(&n.as_str())).cloned().collect() };
    // the classifier recognises the construct it is written for
    {
        let probe: syn::Block = syn::parse_quote!({ recognize(many_till(anychar, peek(terminated(end, eof)))).parse(input) });
        let mut names = model::invoked_names(&probe);
        struct Paths { out: Vec<String> }
        impl model::DeepCb for Paths { fn expr(&mut self, e: &syn::Expr) { if let syn::Expr::Path(p) = e { if let Some(s) = p.path.segments.last() { self.out.push(s.ident.to_string()); } } } }
        let mut ps = Paths { out: vec![] };
        model::deep_walk_block(&probe, &mut ps);
        names.extend(ps.out);
        if global(&names).is_empty() {
            ctx.fail_closed(rule, "self-check: `many_till(anychar, peek(terminated(end, eof)))` is not recognised as anchoring on the end of the input");
            return;
        }
    }
    let mut seen: BTreeSet<String> = BTreeSet::new();
    let mut work = vec![root.name.clone()];
    let mut n = 0;
    while let Some(name) = work.pop() {
        if !seen.insert(name.clone()) {
            continue;
        }
        for f in lexer.iter().filter(|f| f.name == name) {
            n += 1;
            let mut names = model::invoked_names(&f.block);
            struct Paths { out: Vec<String> }
            impl model::DeepCb for Paths { fn expr(&mut self, e: &syn::Expr) { if let syn::Expr::Path(p) = e { if let Some(s) = p.path.segments.last() { self.out.push(s.ident.to_string()); } } } }
            let mut ps = Paths { out: vec![] };
            model::deep_walk_block(&f.block, &mut ps);
            // a local of that name (`if let Ok((rest, _)) = ..`) is not the parser
            struct Bound { out: Vec<String> }
            impl model::DeepCb for Bound {
                fn pat(&mut self, p: &syn::Pat) { model::collect_idents(&quote::ToTokens::to_token_stream(p), &mut self.out); }
                fn local(&mut self, l: &syn::Local) { model::collect_idents(&quote::ToTokens::to_token_stream(&l.pat), &mut self.out); }
            }
            let mut bound = Bound { out: Default::default() };
            model::deep_walk_block(&f.block, &mut bound);
            names.retain(|n| !bound.out.contains(n));
            names.extend(ps.out.into_iter().filter(|n| !bound.out.contains(n)));
            for g in global(&names) {
                ctx.oblige(rule, &format!("{}:{}", f.name, g), true);
                let comment_rest = g == "rest" && f.name.contains("comment");
                if !comment_rest {
                    ctx.violate(rule, &format!("end-of-input-anchor:{}", f.name), &f.file, f.line,
                        &format!("`{}` — reachable from asn_module, the parser of *one* module — uses `{}`: it anchors on the end of the whole input, so what it consumes depends on the modules that follow in the same source (two modules in one source give different results in the two orders)", f.name, g));
                }
            }
            for callee in names {
                if lexer.iter().any(|g| g.name == callee) && !seen.contains(&callee) {
                    work.push(callee);
                }
            }
        }
    }
    ctx.oblige_n("C11.modules/productions-below-asn_module", n);
    ctx.floor("C11.modules/productions-below-asn_module", n, 100);
}
