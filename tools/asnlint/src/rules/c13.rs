//! C13 — whitespace, line endings and comments between tokens do not matter.
//!
//! SRC-P: abstract interpretation of the nom combinator expressions of the lexer.
//! Every parser expression is summarised by what trivia it skips before its first
//! token (`lead`), whether it can match the empty string, and whether it consumes only
//! trivia. At every sequencing boundary outside a lexical (`recognize`) context the right
//! operand must skip comments and whitespace (or the left operand has already consumed the
//! comments and the right one skips whitespace), or the boundary is in audit/trivia.json.
use crate::model::{self, tok, FnInfo, Model};
use crate::report::Ctx;
use serde_json::{json, Value};
use std::collections::BTreeMap;

#[derive(Clone, Copy, PartialEq, PartialOrd, Debug)]
enum Lead {
    N = 0,
    W = 1,
    C = 2,
}

#[derive(Clone, Debug)]
struct Sum {
    lead: Lead,
    nullable: bool,
    /// consumes only whitespace/comments
    trivia: bool,
    /// when trivia: it consumes comments (so a following skip_ws is enough)
    eats_comments: bool,
    /// never consumes input (peek / not / success)
    lookahead: bool,
    desc: String,
    /// for alternations: the alternatives that skip less than comments+whitespace
    weak: Vec<String>,
}

impl Sum {
    fn token(desc: &str) -> Sum {
        Sum { lead: Lead::N, nullable: false, trivia: false, eats_comments: false, lookahead: false, desc: desc.to_string(), weak: vec![] }
    }
}

struct Boundary {
    owner: String,
    file: String,
    line: usize,
    left: String,
    right: String,
    right_lead: Lead,
}

struct An<'a> {
    m: &'a Model,
    fns: BTreeMap<String, Vec<&'a FnInfo>>,
    memo: BTreeMap<String, Sum>,
    in_progress: Vec<String>,
    boundaries: Vec<Boundary>,
    unknown: Vec<(String, String)>,
    applications: BTreeMap<String, usize>,
}

const TERMINALS: [&str; 26] = [
    "tag", "char", "one_of", "none_of", "i128", "u64", "u8", "u128", "i64", "alpha1", "alphanumeric1", "digit1", "take_until", "take_until_or", "take_until_and_not",
    "take_until_unbalanced", "rest", "is_not", "take_while", "take_while1", "eof", "anychar", "satisfy", "take", "hex_digit1", "double",
];
const TRANSPARENT: [&str; 12] = ["map", "into", "map_res", "cut", "into_inner", "map_into", "context_boundary", "map_opt", "verify", "complete", "all_consuming", "consumed"];

fn short(e: &syn::Expr) -> String {
    let t = tok(e);
    let t: String = t.chars().take(70).collect();
    t
}

impl<'a> An<'a> {
    fn lexer_fn(&self, name: &str) -> Option<&'a FnInfo> {
        self.fns.get(name).and_then(|v| if v.len() == 1 { Some(v[0]) } else { v.iter().find(|f| f.module.starts_with("lexer")).cloned() })
    }

    fn seq(&mut self, owner: &FnInfo, parts: Vec<(Sum, usize)>, lexical: bool) -> Sum {
        // boundaries
        if !lexical {
            for i in 0..parts.len() {
                let (l, _) = &parts[i];
                if l.lookahead {
                    continue;
                }
                for j in i + 1..parts.len() {
                    let (r, line) = &parts[j];
                    // a lookahead decides on what comes next just like a consuming parser: it has to see through trivia too
                    self.check(owner, l, r, *line);
                    if !(r.nullable || r.lookahead) {
                        break;
                    }
                }
            }
        }
        // summary
        let mut lead = None;
        for (p, _) in &parts {
            if p.lookahead {
                continue;
            }
            lead = Some(match lead {
                None => p.lead,
                Some(l) => if p.lead < l { p.lead } else { l },
            });
            if !p.nullable {
                break;
            }
        }
        let consuming: Vec<&Sum> = parts.iter().map(|(p, _)| p).filter(|p| !p.lookahead).collect();
        // `skip_ws(many0(comment))` followed by a parser that skips whitespace: together they skip everything
        let mut lead = lead;
        if consuming.len() >= 2 && consuming[0].trivia && consuming[0].eats_comments && consuming[0].lead >= Lead::W {
            let next = consuming.iter().skip(1).find(|p| !(p.trivia && p.nullable));
            if let Some(nx) = next {
                if nx.lead >= Lead::W {
                    lead = Some(Lead::C);
                }
            }
        }
        Sum {
            lead: lead.unwrap_or(Lead::N),
            nullable: consuming.iter().all(|p| p.nullable),
            trivia: !consuming.is_empty() && consuming.iter().all(|p| p.trivia),
            eats_comments: consuming.iter().any(|p| p.trivia && p.eats_comments) && consuming.iter().all(|p| p.trivia),
            lookahead: consuming.is_empty(),
            desc: format!("({})", parts.iter().map(|(p, _)| p.desc.clone()).collect::<Vec<_>>().join(", ")),
            weak: consuming.first().map(|p| p.weak.clone()).unwrap_or_default(),
        }
    }

    fn check(&mut self, owner: &FnInfo, l: &Sum, r: &Sum, line: usize) {
        if r.trivia {
            return;
        }
        let ok = if l.trivia {
            // nothing but trivia on the left: the right side still has to reach its token through what is left over
            if l.eats_comments { r.lead >= Lead::W } else { r.lead == Lead::C }
        } else {
            r.lead == Lead::C
        };
        if !ok {
            let right = if r.weak.is_empty() { r.desc.clone() } else { format!("{{{}}}", r.weak.join(" | ")) };
            self.boundaries.push(Boundary { owner: owner.key.clone(), file: owner.file.clone(), line, left: l.desc.clone(), right, right_lead: r.lead });
        }
    }

    fn named(&mut self, owner: &FnInfo, name: &str) -> Option<Sum> {
        if let Some(s) = self.memo.get(name) {
            return Some(s.clone());
        }
        let f = self.lexer_fn(name)?;
        // only plain parsers: fn(input: Input) -> ParserResult
        let takes_input = f.sig.inputs.len() == 1 && tok(&f.sig.inputs[0]).contains("Input");
        if !takes_input {
            return None;
        }
        if self.in_progress.contains(&name.to_string()) {
            // recursion: assume the weakest until the fixpoint iteration refines it
            return Some(self.memo.get(name).cloned().unwrap_or(Sum::token(name)));
        }
        let _ = owner;
        self.in_progress.push(name.to_string());
        let s = self.body(f);
        self.in_progress.pop();
        let mut s = s;
        s.desc = name.to_string();
        if ["comment", "line_comment", "block_comment"].contains(&name) {
            s.trivia = true;
            s.eats_comments = true;
            s.nullable = false;
        }
        self.memo.insert(name.to_string(), s.clone());
        Some(s)
    }

    fn body(&mut self, f: &'a FnInfo) -> Sum {
        // tail expression of the fn body
        match f.block.stmts.last() {
            Some(syn::Stmt::Expr(e, None)) => {
                let lexical = false;
                self.expr(f, e, lexical, &BTreeMap::new())
            }
            _ => Sum::token(&f.name),
        }
    }

    fn args_sums(&mut self, owner: &'a FnInfo, args: &[&syn::Expr], lexical: bool, env: &BTreeMap<String, Sum>) -> Vec<(Sum, usize)> {
        args.iter().map(|a| (self.expr(owner, a, lexical, env), crate::rules::util::span_line(*a))).collect()
    }

    fn expr(&mut self, owner: &'a FnInfo, e: &syn::Expr, lexical: bool, env: &BTreeMap<String, Sum>) -> Sum {
        use syn::Expr;
        match e {
            Expr::Paren(p) => self.expr(owner, &p.expr, lexical, env),
            Expr::Reference(r) => self.expr(owner, &r.expr, lexical, env),
            Expr::Block(b) => match b.block.stmts.last() {
                Some(syn::Stmt::Expr(x, None)) => self.expr(owner, x, lexical, env),
                _ => Sum::token("block"),
            },
            Expr::Tuple(t) => {
                let elems: Vec<&syn::Expr> = t.elems.iter().collect();
                let parts = self.args_sums(owner, &elems, lexical, env);
                self.seq(owner, parts, lexical)
            }
            Expr::MethodCall(mc) => {
                let name = mc.method.to_string();
                match name.as_str() {
                    "parse" | "map" | "map_res" | "and_then" | "into" => self.expr(owner, &mc.receiver, lexical, env),
                    _ => {
                        self.unknown.push((owner.key.clone(), format!(".{}()", name)));
                        Sum::token(&short(e))
                    }
                }
            }
            Expr::Path(p) => {
                let name = p.path.segments.last().unwrap().ident.to_string();
                if let Some(s) = env.get(&name) {
                    return s.clone();
                }
                if TERMINALS.contains(&name.as_str()) {
                    return Sum::token(&name);
                }
                match name.as_str() {
                    "multispace0" => return Sum { lead: Lead::W, nullable: true, trivia: true, eats_comments: false, lookahead: false, desc: name, weak: vec![] },
                    "multispace1" => return Sum { lead: Lead::W, nullable: false, trivia: true, eats_comments: false, lookahead: false, desc: name, weak: vec![] },
                    _ => {}
                }
                match self.named(owner, &name) {
                    Some(s) => s,
                    None => {
                        self.unknown.push((owner.key.clone(), name.clone()));
                        Sum::token(&name)
                    }
                }
            }
            Expr::Closure(cl) => {
                // imperative parser: `let (input, x) = P.parse(input)?;` statements in order
                let mut parts = vec![];
                if let Expr::Block(b) = &*cl.body {
                    for st in &b.block.stmts {
                        if let syn::Stmt::Local(l) = st {
                            if let Some(init) = &l.init {
                                let mut ex: &syn::Expr = &init.expr;
                                if let Expr::Try(t) = ex {
                                    ex = &t.expr;
                                }
                                if let Expr::MethodCall(mc) = ex {
                                    if mc.method == "parse" {
                                        parts.push((self.expr(owner, &mc.receiver, lexical, env), crate::rules::util::span_line(ex)));
                                    }
                                }
                            }
                        }
                    }
                }
                if parts.is_empty() {
                    return Sum::token("closure");
                }
                self.seq(owner, parts, lexical)
            }
            Expr::Call(c) => {
                let name = model::callee_name(c).unwrap_or_default();
                let args: Vec<&syn::Expr> = c.args.iter().collect();
                *self.applications.entry(name.clone()).or_default() += 1;
                if TERMINALS.contains(&name.as_str()) {
                    return Sum::token(&format!("{}({})", name, args.first().map(|a| short(a)).unwrap_or_default()));
                }
                match name.as_str() {
                    "skip_ws_and_comments" => {
                        let s = self.expr(owner, args[0], lexical, env);
                        Sum { lead: Lead::C, desc: format!("swc({})", s.desc), weak: vec![], ..s }
                    }
                    "skip_ws" => {
                        let s = self.expr(owner, args[0], lexical, env);
                        let lead = if s.lead > Lead::W { s.lead } else { Lead::W };
                        // whitespace, then comments (each comment skips its own leading whitespace): everything
                        let lead = if s.trivia && s.eats_comments { Lead::W } else { lead };
                        Sum { lead, desc: format!("sw({})", s.desc), ..s }
                    }
                    "recognize" => {
                        let s = self.expr(owner, args[0], true, env);
                        Sum { trivia: false, desc: format!("recognize({})", s.desc), ..s }
                    }
                    "opt" => {
                        let s = self.expr(owner, args[0], lexical, env);
                        Sum { nullable: true, desc: format!("opt({})", s.desc), ..s }
                    }
                    "peek" | "not" => {
                        let s = self.expr(owner, args[0], lexical, env);
                        Sum { nullable: true, lookahead: true, desc: format!("{}({})", name, s.desc), ..s }
                    }
                    "success" => Sum { lead: Lead::C, nullable: true, trivia: false, eats_comments: false, lookahead: true, desc: "success".into(), weak: vec![] },
                    "value" => self.expr(owner, args[1], lexical, env),
                    "many0" | "many1" | "fold_many0" | "fold_many1" | "many_till" => {
                        let s = self.expr(owner, args[0], lexical, env);
                        // repetition boundary (p, p)
                        if !lexical && !s.lookahead {
                            let line = crate::rules::util::span_line(args[0]);
                            self.check(owner, &s.clone(), &s.clone(), line);
                        }
                        Sum { nullable: s.nullable || name == "many0" || name == "fold_many0", desc: format!("{}({})", name, s.desc), ..s }
                    }
                    "separated_list0" | "separated_list1" => {
                        let sep = self.expr(owner, args[0], lexical, env);
                        let el = self.expr(owner, args[1], lexical, env);
                        if !lexical {
                            let line = crate::rules::util::span_line(args[0]);
                            self.check(owner, &el.clone(), &sep.clone(), line);
                            self.check(owner, &sep.clone(), &el.clone(), line);
                        }
                        Sum { nullable: el.nullable || name == "separated_list0", desc: format!("{}({}, {})", name, sep.desc, el.desc), ..el }
                    }
                    "alt" => {
                        let alts: Vec<&syn::Expr> = match args.first() {
                            Some(Expr::Tuple(t)) => t.elems.iter().collect(),
                            _ => args.clone(),
                        };
                        let sums: Vec<Sum> = alts.iter().map(|a| self.expr(owner, a, lexical, env)).collect();
                        let lead = sums.iter().map(|s| s.lead).fold(Lead::C, |a, b| if b < a { b } else { a });
                        let mut weak: Vec<String> = vec![];
                        for s in &sums {
                            if s.lead < Lead::C && !s.trivia {
                                if s.weak.is_empty() {
                                    weak.push(s.desc.chars().take(40).collect());
                                } else {
                                    weak.extend(s.weak.clone());
                                }
                            }
                        }
                        weak.sort();
                        weak.dedup();
                        Sum {
                            weak,
                            lead,
                            nullable: sums.iter().any(|s| s.nullable),
                            trivia: sums.iter().all(|s| s.trivia),
                            eats_comments: sums.iter().all(|s| s.trivia) && sums.iter().any(|s| s.eats_comments),
                            lookahead: sums.iter().all(|s| s.lookahead),
                            desc: format!("alt({})", sums.iter().map(|s| s.desc.clone()).collect::<Vec<_>>().join(" | ")),
                        }
                    }
                    "pair" | "preceded" | "terminated" | "separated_pair" | "delimited" | "tuple" => {
                        let parts = self.args_sums(owner, &args, lexical, env);
                        let mut s = self.seq(owner, parts, lexical);
                        s.desc = format!("{}{}", name, s.desc);
                        s
                    }
                    "opt_delimited" => {
                        let mut parts = self.args_sums(owner, &args, lexical, env);
                        if parts.len() == 3 {
                            parts[0].0.nullable = true;
                            parts[2].0.nullable = true;
                        }
                        self.seq(owner, parts, lexical)
                    }
                    n if TRANSPARENT.contains(&n) => self.expr(owner, args[0], lexical, env),
                    _ => {
                        // crate-local wrapper with parser parameters: inline its definition
                        if let Some(f) = self.lexer_fn(&name) {
                            let params: Vec<String> = f.sig.inputs.iter().filter_map(|a| match a {
                                syn::FnArg::Typed(t) => Some(tok(&t.pat).replace("mut ", "")),
                                _ => None,
                            }).collect();
                            let returns_parser = tok(&f.sig.output).contains("Parser");
                            if returns_parser {
                                let mut env2 = BTreeMap::new();
                                for (p, a) in params.iter().zip(args.iter()) {
                                    let is_parser_arg = !matches!(a, Expr::Lit(_)) && !tok(a).chars().all(|c| c.is_ascii_digit());
                                    if is_parser_arg {
                                        // non-parser arguments (numbers, strings) simply stay unbound
                                        let s = if matches!(a, Expr::Path(pp) if pp.path.segments.len() == 1 && pp.path.segments[0].ident.to_string().chars().next().map(|c| c.is_uppercase()).unwrap_or(false)) {
                                            continue;
                                        } else if tok(a).ends_with(".len()") {
                                            continue;
                                        } else {
                                            self.expr(owner, a, lexical, env)
                                        };
                                        env2.insert(p.clone(), s);
                                    }
                                }
                                if let Some(syn::Stmt::Expr(x, None)) = f.block.stmts.last() {
                                    let mut s = self.expr(f, x, lexical, &env2);
                                    s.desc = format!("{}({})", name, args.iter().map(|a| short(a)).collect::<Vec<_>>().join(", "));
                                    return s;
                                }
                            }
                            // a plain parser called with its input
                            if let Some(s) = self.named(owner, &name) {
                                return s;
                            }
                        }
                        self.unknown.push((owner.key.clone(), format!("{}(..)", name)));
                        Sum::token(&format!("{}(..)", name))
                    }
                }
            }
            _ => {
                self.unknown.push((owner.key.clone(), short(e)));
                Sum::token(&short(e))
            }
        }
    }
}

pub fn run(m: &Model, ctx: &mut Ctx) {
    ctx.explanation = "Abstract interpretation of every nom combinator expression in lexer/**: each parser is summarised by the trivia it skips before its first token (comments+whitespace / whitespace / nothing), nullability and whether it consumes only trivia; \
the crate's own wrappers (skip_ws, skip_ws_and_comments, in_braces, in_parentheses, in_brackets, in_version_brackets, opt_parentheses, optionality, ...) are inlined from their definitions, named parsers are summarised by a memoised fixpoint, imperative closures are read as the sequence of their `.parse(input)?` steps. \
At every sequencing boundary (tuple, pair, preceded, terminated, delimited, separated_pair, separated_list, many, fold_many, opt_delimited) outside a lexical (`recognize`) context the right operand must skip comments and whitespace — or whitespace when the left operand has consumed the comments. \
Boundaries that do not are listed in audit/trivia.json as benign (intra-token: quotes, `.&`, digits) or finding (a layout that fails to parse); anything else is a violation. \
Not decided: doc-comment attribution (excluded by the property), nom's internals, that multispace treats CRLF as whitespace (nom fact).".into();
    ctx.assumptions = vec!["nom combinators sequence their operands without skipping anything themselves".into(), "multispace0/1 accept \\r and \\n".into()];
    ctx.rule("lead/nullability/trivia summaries of parser expressions; boundary obligations between adjacent operands");

    let mut fns: BTreeMap<String, Vec<&FnInfo>> = BTreeMap::new();
    for f in m.fns.iter().filter(|f| f.module.starts_with("lexer") || f.module == "input") {
        fns.entry(f.name.clone()).or_default().push(f);
    }
    let mut an = An { m, fns, memo: BTreeMap::new(), in_progress: vec![], boundaries: vec![], unknown: vec![], applications: BTreeMap::new() };
    // fixpoint over named parsers (recursion): iterate until summaries are stable
    let parser_fns: Vec<&FnInfo> = m.fns.iter().filter(|f| f.module.starts_with("lexer") && f.sig.inputs.len() == 1 && tok(&f.sig.inputs[0]).contains("Input") && tok(&f.sig.output).contains("ParserResult")).collect();
    ctx.floor("C13/parser-fns", parser_fns.len(), 100);
    let mut rounds = 0;
    loop {
        rounds += 1;
        let before: BTreeMap<String, (Lead, bool)> = an.memo.iter().map(|(k, v)| (k.clone(), (v.lead, v.nullable))).collect();
        an.boundaries.clear();
        an.unknown.clear();
        an.applications.clear();
        let old = std::mem::take(&mut an.memo);
        // keep old summaries available for recursive references
        for f in &parser_fns {
            an.memo = old.clone();
            an.memo.remove(&f.name);
            an.in_progress.clear();
            let _ = an.named(f, &f.name);
        }
        // final pass of this round: analyse each fn once with all summaries known
        let summaries = an.memo.clone();
        let mut all = old.clone();
        for f in &parser_fns {
            an.memo = all.clone();
            for (k, v) in &summaries {
                an.memo.entry(k.clone()).or_insert(v.clone());
            }
            an.memo.remove(&f.name);
            an.in_progress.clear();
            an.boundaries.retain(|b| b.owner != f.key);
            if let Some(s) = an.named(f, &f.name) {
                all.insert(f.name.clone(), s);
            }
        }
        an.memo = all;
        let after: BTreeMap<String, (Lead, bool)> = an.memo.iter().map(|(k, v)| (k.clone(), (v.lead, v.nullable))).collect();
        if after == before || rounds >= 6 {
            break;
        }
    }
    // one clean pass for the boundary list: every fn (parsers and wrappers' call sites are inlined at their callers)
    an.boundaries.clear();
    an.unknown.clear();
    an.applications.clear();
    let summaries = an.memo.clone();
    for f in &parser_fns {
        an.memo = summaries.clone();
        an.memo.remove(&f.name);
        an.in_progress.clear();
        let _ = an.named(f, &f.name);
    }
    // wrappers that build parsers from non-parser arguments (e.g. enumerals(start_index))
    for f in m.fns.iter().filter(|f| f.module.starts_with("lexer") && tok(&f.sig.output).contains("Parser") && !f.sig.inputs.iter().any(|a| tok(a).contains("Input")) && f.sig.generics.params.iter().all(|g| !tok(g).contains("Parser"))) {
        if let Some(syn::Stmt::Expr(x, None)) = f.block.stmts.last() {
            an.in_progress.clear();
            an.memo = summaries.clone();
            let _ = an.expr(f, x, false, &BTreeMap::new());
        }
    }
    ctx.extra.insert("fixpoint_rounds".into(), json!(rounds));
    if std::env::var("ASNLINT_DUMP_LEADS").is_ok() {
        for (k, v) in &summaries {
            println!("LEAD {:?} nullable={} trivia={} {}", v.lead, v.nullable, v.trivia, k);
        }
    }
    let swc = an.applications.get("skip_ws_and_comments").cloned().unwrap_or(0);
    let sw = an.applications.get("skip_ws").cloned().unwrap_or(0);
    ctx.extra.insert("skip_ws_and_comments_applications".into(), json!(swc));
    ctx.extra.insert("skip_ws_applications".into(), json!(sw));
    ctx.floor("C13/skip_ws_and_comments-applications", swc, 250);
    ctx.floor("C13/skip_ws-applications", sw, 20);
    for f in &parser_fns {
        ctx.func(&f.key);
    }
    // unknown constructs: fail closed only for parsers on the token path
    let mut unk: Vec<String> = an.unknown.iter().map(|(o, w)| format!("{}: {}", o, w)).collect();
    unk.sort();
    unk.dedup();
    ctx.extra.insert("unmodelled_constructs".into(), json!(unk));

    // group boundaries by line-free key
    let audit: Value = std::fs::read_to_string(ctx.verif.join("audit/trivia.json")).ok().and_then(|s| serde_json::from_str(&s).ok()).unwrap_or(json!({"boundaries": {}}));
    let table = audit["boundaries"].as_object().cloned().unwrap_or_default();
    let mut groups: BTreeMap<String, Vec<&Boundary>> = BTreeMap::new();
    let clip = |s: &str| -> String { s.chars().take(60).collect() };
    for b in &an.boundaries {
        let key = format!("{}|{} -> {}", b.owner, clip(&b.left), clip(&b.right));
        groups.entry(key).or_default().push(b);
    }
    if std::env::var("ASNLINT_DUMP_TRIVIA").is_ok() {
        let mut tbl = serde_json::Map::new();
        for (k, v) in &groups {
            tbl.insert(crate::report::sanitize_key(k), json!({"count": v.len(), "class": "baseline", "reason": "", "line": v[0].line, "file": v[0].file, "lead": format!("{:?}", v[0].right_lead)}));
        }
        println!("{}", serde_json::to_string_pretty(&Value::Object(tbl)).unwrap());
        return;
    }
    ctx.extra.insert("boundaries_flagged".into(), json!(an.boundaries.len()));
    for (k, v) in &groups {
        let key = crate::report::sanitize_key(k);
        ctx.oblige("C13.boundary", &key, true);
        let b = v[0];
        match table.get(&key) {
            None => ctx.violate("C13.boundary", &format!("unaudited:{}", key), &b.file, b.line,
                &format!("in `{}`, `{}` is followed by `{}`, which skips {} before its first token: a comment{} between these two tokens changes the outcome", b.owner, b.left, b.right,
                    match b.right_lead { Lead::N => "nothing", Lead::W => "only whitespace", Lead::C => "everything" }, if b.right_lead == Lead::N { " or whitespace" } else { "" })),
            Some(e) => {
                let n = e["count"].as_u64().unwrap_or(0) as usize;
                if v.len() > n {
                    ctx.violate("C13.boundary", &format!("count:{}", key), &b.file, b.line, &format!("{} boundaries of this shape, the audit covers {}", v.len(), n));
                }
                if e["class"].as_str() == Some("finding") {
                    ctx.violate("C13.boundary", &format!("finding:{}", key), &b.file, b.line, &format!("known layout sensitivity: {}", e["reason"].as_str().unwrap_or("")));
                }
            }
        }
    }
    let total_checked = swc + sw;
    ctx.oblige_n("C13.boundary/wrapper-applications", total_checked);
    for g in groups.iter().take(5) {
        ctx.sample(json!({"boundary": g.0, "sites": g.1.len()}));
    }
    let _ = an.m;

    // the three comment forms are reachable from `comment`
    if let Ok(f) = m.find_fn(None, "comment", Some("lexer::common")) {
        ctx.oblige("C13.comments", "forms", true);
        let b = tok(&f.block);
        if !b.contains("skip_ws(alt((block_comment,line_comment)))") {
            ctx.violate("C13.comments", "forms", &f.file, f.line, "comment must accept block comments and line comments after optional whitespace");
        }
    }
    if let Ok(f) = m.find_fn(None, "line_comment", Some("lexer::common")) {
        ctx.oblige("C13.comments", "line-comment-end", true);
        let b = tok(&f.block);
        if !(b.contains("take_until_or(\"\\n\",LINE_COMMENT)") && b.contains("opt(tag(LINE_COMMENT))") && b.contains("into_inner(rest)")) {
            ctx.violate("C13.comments", "line-comment-end", &f.file, f.line, "a line comment ends at the end of line, at the next `--`, or at the end of input");
        }
    }
    if let Ok(f) = m.find_fn(None, "block_comment", Some("lexer::common")) {
        ctx.oblige("C13.comments", "block-comment-nesting", true);
        let b = tok(&f.block);
        if !b.contains("take_until_unbalanced(BLOCK_COMMENT_START,BLOCK_COMMENT_END)") {
            ctx.violate("C13.comments", "block-comment-nesting", &f.file, f.line, "block comments nest: the body must be scanned with the balanced scanner");
        }
    }
    if let Ok(f) = m.find_fn(None, "skip_ws_and_comments", Some("lexer::common")) {
        ctx.oblige("C13.comments", "skip_ws_and_comments", true);
        let b = tok(&f.block);
        if !b.contains("preceded(many0(alt((comment,into_inner(multispace1)))),inner)") {
            ctx.violate("C13.comments", "skip_ws_and_comments", &f.file, f.line, "skip_ws_and_comments must skip any sequence of comments and whitespace before the inner parser");
        }
    }
    if let Ok(f) = m.find_fn(None, "skip_ws", Some("lexer::common")) {
        ctx.oblige("C13.comments", "skip_ws", true);
        if !tok(&f.block).contains("preceded(multispace0,inner)") {
            ctx.violate("C13.comments", "skip_ws", &f.file, f.line, "skip_ws must skip whitespace before the inner parser");
        }
    }
    hyphen_runs(m, ctx);
    word_sequences(m, ctx);
    line_comments(m, ctx);
    balanced_scanner(m, ctx);
    mandatory_whitespace(m, ctx);
}

/// C13.hyphen: `--` opens a comment wherever it occurs outside a string, and a name never ends in a hyphen (X.680 12.2,
/// 12.3, 12.6.1). A parser that repeats a character class containing `-` (take_while / is_a / many(one_of(..)))
/// swallows the hyphens of a comment that follows a name without whitespace, so every such repetition in the lexer is
/// audited (audit/hyphen_runs.json): the accepted ones sit inside quotation marks or are not followed by trivia.
fn hyphen_runs(m: &Model, ctx: &mut Ctx) {
    let audit: Value = std::fs::read_to_string(ctx.verif.join("audit/hyphen_runs.json")).ok().and_then(|s| serde_json::from_str(&s).ok()).unwrap_or(json!({"sites": {}}));
    let consts = crate::rules::util::const_resolver(m);
    let ev = crate::eval::Evaluator { consts: &consts, call_hook: &crate::eval::no_hook, inline: None };
    let mut sites: BTreeMap<String, (String, usize, String)> = BTreeMap::new();
    let mut examined = 0;
    for f in m.fns.iter().filter(|f| f.krate == "rasn-compiler" && f.module.starts_with("lexer") && !f.module.contains("tests")) {
        for c in model::calls_in(&f.block) {
            let name = model::callee_name(&c).unwrap_or_default();
            let accepts_hyphen = match name.as_str() {
                // predicate repetitions
                "take_while" | "take_while1" | "take_while_m_n" | "take_till" | "take_till1" => {
                    let Some(pred) = c.args.iter().last() else { continue };
                    examined += 1;
                    let r = match pred {
                        syn::Expr::Closure(_) => ev.apply_closure(pred, &[crate::eval::Val::Char('-')], &crate::eval::Env::new()),
                        other => Err(format!("predicate `{}` is not a closure", tok(other))),
                    };
                    match r {
                        Ok(crate::eval::Val::Bool(b)) => if name.starts_with("take_till") { !b } else { b },
                        // a predicate that cannot be evaluated is treated as accepting (audited)
                        _ => true,
                    }
                }
                "is_a" => {
                    examined += 1;
                    c.args.first().map(|a| tok(a).contains('-')).unwrap_or(true)
                }
                "is_not" => false,
                // repetition of a character set
                "many0" | "many1" | "fold_many0" | "fold_many1" | "many_m_n" | "many_till" | "many0_count" | "many1_count" => {
                    let inner = c.args.iter().map(|a| tok(a)).find(|t| t.starts_with("one_of(") || t.contains("(one_of("));
                    match inner {
                        Some(t) => {
                            examined += 1;
                            t.split("one_of(").nth(1).map(|r| r.split(')').next().unwrap_or("").contains('-')).unwrap_or(false)
                        }
                        None => false,
                    }
                }
                _ => false,
            };
            if accepts_hyphen {
                let key = format!("{}|{}", f.key, name);
                sites.insert(key, (f.file.clone(), model::line_of(syn::spanned::Spanned::span(&c)), tok(&c).chars().take(90).collect()));
            }
        }
    }
    ctx.floor("C13.hyphen/repetitions-examined", examined, 3);
    for (k, (file, line, text)) in &sites {
        ctx.oblige("C13.hyphen", k, true);
        if audit["sites"].get(k).is_none() {
            ctx.violate("C13.hyphen", &format!("unaudited-hyphen-run:{}", k), file, *line,
                &format!("`{}` repeats a character class that contains `-`: it consumes `--`, so a comment written directly after the token (no whitespace) is swallowed into it, and a trailing hyphen is accepted as part of a name", text));
        }
    }
    ctx.extra.insert("hyphen_runs".into(), json!(sites.keys().collect::<Vec<_>>()));
}

/// C13.scan: block comments nest and end at the `*/` that balances them, whatever they contain. The scanner behind
/// block_comment (take_until_unbalanced) is evaluated abstractly on comment bodies — with quotes, hyphens, nested
/// comments, multi-byte characters, and an unterminated tail — and compared with the balance rule: only the two tags
/// change the nesting level, every other character is skipped on its own.
fn balanced_scanner(m: &Model, ctx: &mut Ctx) {
    use crate::eval::{Env, Evaluator, Val};
    let Some(f) = m.fns.iter().find(|f| f.name == "take_until_unbalanced" && f.module.starts_with("lexer")) else {
        ctx.fail_closed("C13.scan", "anchor not found: lexer::util::take_until_unbalanced");
        return;
    };
    ctx.func(&f.key);
    let consts = crate::rules::util::const_resolver(m);
    let bounds = |st: &str, r: Option<&Val>| -> Result<(usize, usize), String> {
        match r {
            Some(Val::Ctor(n, p, _)) if n == "$range" => {
                let lo = match &p[0] { Val::Int { v, .. } => *v as usize, _ => 0 };
                let hi = match &p[1] { Val::Int { v, .. } => *v as usize, _ => st.len() };
                Ok((lo, hi))
            }
            Some(Val::List(l)) => match (l.first(), l.last()) {
                (Some(Val::Int { v: a, .. }), Some(Val::Int { v: b, .. })) => Ok((*a as usize, *b as usize + 1)),
                _ => Ok((0, 0)),
            },
            o => Err(format!("slice argument {:?}", o.map(|x| x.show()))),
        }
    };
    let hook = |_: &Evaluator, name: &str, a: &[Val]| -> Option<Result<Val, String>> {
        match (name, a.first()) {
            (".slice", Some(Val::Str(st))) => Some(bounds(st, a.get(1)).and_then(|(lo, hi)| {
                if lo > hi || hi > st.len() || !st.is_char_boundary(lo) || !st.is_char_boundary(hi) {
                    Err(format!("slice {}..{} of a {}-byte input is out of range or splits a character (the scanner would panic)", lo, hi, st.len()))
                } else {
                    Ok(Val::Str(st[lo..hi].to_string()))
                }
            })),
            (".inner", Some(v)) | (".into_inner", Some(v)) | (".clone", Some(v)) if a.len() == 1 => Some(Ok(v.clone())),
            (".unwrap_or_default", Some(Val::Ctor(n, _, _))) if n == "None" => Some(Ok(Val::Char('\0'))),
            // the crate's own comment parser (white space, then one comment in either form; C13.line and the block rule decide
            // that it consumes exactly the comment): modelled by X.680 12.6.3 / 12.6.4
            ("comment", Some(Val::Str(input))) => {
                let t = input.trim_start_matches(|c: char| c == ' ' || c == '\t' || c == '\n' || c == '\r');
                let lead = input.len() - t.len();
                let end = if let Some(body) = t.strip_prefix("--") {
                    let eol = body.find(|c| c == '\n' || c == '\r').unwrap_or(body.len());
                    Some(2 + match body[..eol].find("--") { Some(k) => k + 2, None => eol })
                } else if t.starts_with("/*") {
                    let (mut i, mut level) = (2usize, 1i32);
                    let mut end = None;
                    while i < t.len() {
                        if t[i..].starts_with("/*") { level += 1; i += 2; }
                        else if t[i..].starts_with("*/") { level -= 1; i += 2; if level == 0 { end = Some(i); break; } }
                        else { i += t[i..].chars().next().map(|c| c.len_utf8()).unwrap_or(1); }
                    }
                    end
                } else { None };
                Some(Ok(match end {
                    Some(e) => Val::Ctor("Ok".into(), vec![Val::Tuple(vec![Val::Str(input[lead + e..].to_string()), Val::Str(input[lead..lead + e].to_string())])], BTreeMap::new()),
                    None => Val::Ctor("Err".into(), vec![Val::Unit], BTreeMap::new()),
                }))
            }
            (".len", Some(Val::Str(t))) if a.len() == 1 => Some(Ok(Val::int(t.len() as i128))),
            ("tag()", Some(Val::Str(t))) => match a.get(1) {
                Some(Val::Str(input)) => Some(Ok(if input.starts_with(t.as_str()) { Val::Ctor("Ok".into(), vec![Val::Unit], BTreeMap::new()) } else { Val::Ctor("Err".into(), vec![Val::Unit], BTreeMap::new()) })),
                _ => None,
            },
            _ => None,
        }
    };
    let ev = Evaluator { consts: &consts, call_hook: &hook, inline: None };
    let params: Vec<String> = f.sig.inputs.iter().filter_map(|a| match a { syn::FnArg::Typed(t) => Some(tok(&t.pat)), _ => None }).collect();
    // oracle: consumed = text up to (not including) the closing tag that brings the nesting level to -1
    let oracle = |text: &str, open: &str, close: &str| -> Option<usize> {
        let mut level = 0i32;
        let mut i = 0;
        while i < text.len() {
            if text[i..].starts_with(open) {
                level += 1;
                i += open.len();
            } else if text[i..].starts_with(close) {
                level -= 1;
                if level == -1 {
                    return Some(i);
                }
                i += close.len();
            } else {
                i += text[i..].chars().next().map(|c| c.len_utf8()).unwrap_or(1);
            }
        }
        None
    };
    let texts = [
        " plain */ rest",
        " a /* nested */ b */ rest",
        " 3.5\" */ x \"y\" */",
        " the so-called \"magic number */ g \"hello\"",
        " \"quoted */ inside\" */ after",
        " -- dashes -- */ rest",
        " é ü */ rest",
        " /* /* deep */ */ */ rest",
        " unterminated /* inner */",
        " ends with opener /*",
        "",
        "*/",
    ];
    let mut n = 0;
    for (open, close) in [("/*", "*/"), ("{", "}")] {
        for text in texts {
            let text = if open == "{" { text.replace("/*", "{").replace("*/", "}") } else { text.to_string() };
            n += 1;
            ctx.oblige("C13.scan", &format!("{}..{}:{:?}", open, close, text), true);
            let mut env = Env::new();
            env.insert(params.first().cloned().unwrap_or("opening_tag".into()), Val::Str(open.into()));
            env.insert(params.get(1).cloned().unwrap_or("closing_tag".into()), Val::Str(close.into()));
            let r = ev.eval_fn_body(&f.block, &mut env).and_then(|clo| match clo {
                Val::Closure(cl, cenv) => ev.apply_closure(&syn::Expr::Closure(*cl), &[Val::Str(text.clone())], &cenv),
                o => Err(format!("take_until_unbalanced returned {}", o.show())),
            });
            let want = oracle(&text, open, close);
            match r {
                Ok(Val::Ctor(ok, p, _)) if ok == "Ok" => {
                    let (rest, consumed) = match p.first() {
                        Some(Val::Tuple(t)) if t.len() == 2 => (t[0].clone(), t[1].clone()),
                        _ => (Val::Unit, Val::Unit),
                    };
                    let got = match &consumed { Val::Str(c) => Some(c.len()), _ => None };
                    let balanced_to_end = want.is_none() && got == Some(text.len());
                    if got != want && !balanced_to_end {
                        ctx.violate("C13.scan", "comment-end", &f.file, f.line,
                            &format!("scanning {:?} for the `{}` that balances the comment stops after {:?} bytes (rest {}); the balancing `{}` is at byte {:?}: what is inside a comment (quotes, hyphens, other characters) must not influence where it ends", text, close, got, rest.show(), close, want));
                        break;
                    }
                }
                Ok(Val::Ctor(e, _, _)) if e == "Err" => {
                    if want.is_some() {
                        ctx.violate("C13.scan", "comment-end", &f.file, f.line, &format!("scanning {:?} fails although the balancing `{}` is at byte {:?}", text, close, want));
                        break;
                    }
                }
                Ok(o) => { ctx.fail_closed("C13.scan", &format!("[{:?}]: {}", text, o.show())); break }
                Err(e) => { ctx.fail_closed("C13.scan", &format!("[{:?}]: {}", text, e)); break }
            }
        }
    }
    ctx.floor("C13.scan/texts", n, 20);
    // the same scanner delimits `{ .. }` after CONSTRAINED BY (and in value notation handed on as text): there the text between
    // the braces is ASN.1 notation, in which a comment may contain a brace ("comments containing quotes, braces, keywords")
    let brace_texts = [" x -- } -- y } rest", " x /* } */ y } rest", " x -- {\n y } rest", " plain } rest"];
    let comment_aware = |text: &str| -> Option<usize> {
        let (mut i, mut level) = (0usize, 0i32);
        while i < text.len() {
            let r = &text[i..];
            if r.starts_with("--") {
                let body = &r[2..];
                let eol = body.find('\n').unwrap_or(body.len());
                i += 2 + match body[..eol].find("--") { Some(k) => k + 2, None => eol };
            } else if r.starts_with("/*") {
                i += r.find("*/").map(|k| k + 2).unwrap_or(r.len());
            } else if r.starts_with('{') {
                level += 1;
                i += 1;
            } else if r.starts_with('}') {
                level -= 1;
                if level == -1 {
                    return Some(i);
                }
                i += 1;
            } else {
                i += r.chars().next().map(|c| c.len_utf8()).unwrap_or(1);
            }
        }
        None
    };
    for text in brace_texts {
        ctx.oblige("C13.scan", &format!("braces-with-comment:{:?}", text), true);
        let mut env = Env::new();
        env.insert(params.first().cloned().unwrap_or("opening_tag".into()), Val::Str("{".into()));
        env.insert(params.get(1).cloned().unwrap_or("closing_tag".into()), Val::Str("}".into()));
        let r = ev.eval_fn_body(&f.block, &mut env).and_then(|clo| match clo {
            Val::Closure(cl, cenv) => ev.apply_closure(&syn::Expr::Closure(*cl), &[Val::Str(text.to_string())], &cenv),
            o => Err(format!("take_until_unbalanced returned {}", o.show())),
        });
        let want = comment_aware(text);
        let got = match &r {
            Ok(Val::Ctor(ok, p, _)) if ok == "Ok" => match p.first() { Some(Val::Tuple(t)) if t.len() == 2 => match &t[1] { Val::Str(c) => Some(c.len()), _ => None }, _ => None },
            _ => None,
        };
        if let Err(e) = &r {
            ctx.fail_closed("C13.scan", &format!("[{:?}]: {}", text, e));
            break;
        }
        if got != want {
            ctx.violate("C13.scan", "brace-inside-comment", &f.file, f.line, &format!("scanning {:?} for the `}}` that closes the braces stops after {:?} bytes; with the comments skipped the closing brace is at byte {:?}: a comment that contains a brace changes where `CONSTRAINED BY {{ .. }}` ends (inserting the comment turns Ok into Err)", text, got, want));
            break;
        }
    }
}

/// C13.mandatory: "none where the tokens stay separable" — no boundary may *require* whitespace. A parser that demands
/// at least one whitespace character (multispace1, space1, line_ending, newline, tab, char(' ') ...) is legitimate only
/// as one alternative of a trivia loop (`many0(alt((comment, multispace1)))`); used in sequence after a token it rejects
/// `DEFAULT-1`, `DEFAULT/* c */5` and every other layout without a blank at that place.
/// C13.words: a reserved word sequence (`BIT STRING`, `WITH COMPONENTS`, `DEFINED BY`, ..) is a sequence of tokens; matched
/// as one literal with a blank inside (`tag("BIT STRING")`) it fixes the layout between the words to exactly that blank.
/// Every `tag`/`tag_no_case` argument of the lexer is resolved (literal or constant) and must not contain white space.
fn word_sequences(m: &Model, ctx: &mut Ctx) {
    use crate::rules::util::{const_resolver, lit_of};
    let consts = const_resolver(m);
    let mut sites = 0;
    for f in m.fns.iter().filter(|f| f.krate == "rasn-compiler" && f.module.starts_with("lexer") && !f.module.contains("tests")) {
        for c in model::calls_in(&f.block) {
            let name = model::callee_name(&c).unwrap_or_default();
            if name != "tag" && name != "tag_no_case" {
                continue;
            }
            let Some(a) = c.args.first() else { continue };
            let lit = match lit_of(a) {
                Some(crate::eval::Val::Str(s)) => Some(s),
                _ => match consts(&tok(a)) { Some(crate::eval::Val::Str(s)) => Some(s), _ => None },
            };
            let Some(lit) = lit else { continue };
            sites += 1;
            ctx.oblige("C13.words", &format!("{}:{}", f.name, lit), false);
            if lit.trim().chars().any(|ch| ch.is_whitespace()) {
                ctx.violate("C13.words", &format!("literal-with-blank:{}:{}", f.name, lit.replace(' ', "_")), &f.file, model::line_of(syn::spanned::Spanned::span(&c)),
                    &format!("`{}` matches `{}` as one literal: the words are separate tokens, so `{}` written with two blanks, a line break or a comment between the words is rejected", f.name, lit, lit));
            }
            // the same for punctuation: X.680 clause 12 knows these items of more than one character; any other run of
            // punctuation matched as one literal (`{}`, `::`, `),`) glues two tokens together (`.&` is audited: a field name
            // begins with `&` and is written directly behind the dot in every module of the corpus)
            const ITEMS: [&str; 8] = ["::=", "..", "...", "[[", "]]", "--", "/*", "*/"];
            // (fn or "*", literal, reason)
            const AUDITED: [(&str, &str, &str); 2] = [
                ("*", ".&", "a field name begins with `&` and is written directly behind the dot in every module of the corpus"),
                ("iri_value", "\"/", "the opening quotation mark and first slash of an IRI value: inside one string token"),
            ];
            let t = lit.trim();
            if t.chars().count() >= 2 && t.chars().all(|ch| ch.is_ascii_punctuation()) && !ITEMS.contains(&t) && !AUDITED.iter().any(|(g, l, _)| *l == t && (*g == "*" || *g == f.name)) {
                ctx.violate("C13.words", &format!("glued-punctuation:{}:{}", f.name, t), &f.file, model::line_of(syn::spanned::Spanned::span(&c)),
                    &format!("`{}` matches `{}` as one literal: these are {} tokens, so a blank, a line break or a comment between them is rejected although it is legal there", f.name, t, t.chars().count()));
            }
        }
    }
    ctx.floor("C13.words/tag-literals", sites, 100);
}

fn mandatory_whitespace(m: &Model, ctx: &mut Ctx) {
    let names = ["multispace1", "space1", "line_ending", "newline", "tab", "crlf"];
    let mut sites = 0;
    for f in m.fns.iter().filter(|f| f.krate == "rasn-compiler" && f.module.starts_with("lexer") && !f.module.contains("tests")) {
        // every occurrence of such a parser (as a path) and the combinator call it is an argument of
        struct V<'a> {
            names: &'a [&'a str],
            // (parser name, enclosing combinator chain from the outside in, line)
            out: Vec<(String, Vec<String>, usize)>,
            stack: Vec<String>,
        }
        impl<'a, 'ast> syn::visit::Visit<'ast> for V<'a> {
            fn visit_expr_call(&mut self, c: &'ast syn::ExprCall) {
                let n = model::callee_name(c).unwrap_or_default();
                self.stack.push(n);
                syn::visit::visit_expr_call(self, c);
                self.stack.pop();
            }
            fn visit_expr_path(&mut self, p: &'ast syn::ExprPath) {
                let last = p.path.segments.last().map(|s| s.ident.to_string()).unwrap_or_default();
                if self.names.contains(&last.as_str()) {
                    self.out.push((last, self.stack.clone(), model::line_of(syn::spanned::Spanned::span(p))));
                }
            }
            fn visit_item(&mut self, _: &'ast syn::Item) {}
        }
        let mut v = V { names: &names, out: vec![], stack: vec![] };
        syn::visit::Visit::visit_block(&mut v, &f.block);
        for (name, chain, line) in v.out {
            sites += 1;
            let key = format!("{}:{}", f.name, name);
            ctx.oblige("C13.mandatory", &key, true);
            // accepted shape: ... many0( alt( ( comment, [into_inner(] multispace1 [)] ) ) )
            let inner: Vec<&str> = chain.iter().map(|x| x.as_str()).filter(|x| *x != "into_inner").collect();
            // many1(alt((comment, multispace1))) demands *some* trivia, which a comment alone satisfies (between two words)
            let in_trivia_loop = inner.len() >= 2 && inner[inner.len() - 1] == "alt" && ["many0", "many0_count", "fold_many0", "many1", "many1_count"].contains(&inner[inner.len() - 2]);
            // inside a trivia loop the white-space class must be the full one: spaces, tabs *and* line breaks
            if in_trivia_loop && name != "multispace1" {
                ctx.violate("C13.mandatory", &format!("trivia-class:{}", key), &f.file, line,
                    &format!("`{}` in `{}` skips trivia with `{}`, which does not accept every white-space character (spaces, tabs, LF, CR LF): a line break at this place is rejected although a blank is accepted", name, f.name, name));
            }
            let ok = in_trivia_loop;
            if !ok {
                ctx.violate("C13.mandatory", &format!("whitespace-required:{}", key), &f.file, line,
                    &format!("`{}` in `{}` (under {}) demands at least one whitespace character at this place: a layout with no blank there — a comment or the next token directly after the previous one — is rejected although the tokens are separable", name, f.name, if chain.is_empty() { "no combinator".to_string() } else { chain.join("(") }));
            }
        }
    }
    ctx.floor("C13.mandatory/sites", sites, 2);
}


/// C13.line — X.680 12.6.3: a one-line comment begins with `--` and ends with the next pair of adjacent hyphens or at the end
/// of the line, whichever comes first. The crate's `line_comment` is interpreted character by character (SRC-C) on comments
/// with and without text, closed and unclosed, at the end of the input, and on runs of hyphens: what it consumes must be
/// exactly the comment — a character more comments out notation that follows on the same line, a character less leaves
/// hyphens behind for the next parser.
pub fn line_comments(m: &Model, ctx: &mut Ctx) {
    use crate::eval::Evaluator;
    use crate::rules::util::const_resolver;
    let rule = "C13.line";
    let Some(f) = m.fns.iter().find(|f| f.name == "line_comment" && f.module.starts_with("lexer") && f.krate == "rasn-compiler") else {
        ctx.fail_closed(rule, "anchor not found: lexer::common::line_comment");
        return;
    };
    ctx.func(&f.key);
    let Some(syn::Stmt::Expr(tail, None)) = f.block.stmts.last() else {
        ctx.fail_closed(rule, "line_comment does not end in a parser expression");
        return;
    };
    let consts = const_resolver(m);
    let ev = Evaluator { consts: &consts, call_hook: &crate::eval::no_hook, inline: None };
    // the oracle: 12.6.3 read literally
    fn oracle(t: &str) -> Option<usize> {
        let body = t.strip_prefix("--")?;
        let eol = body.find(|c| c == '\n' || c == '\r').unwrap_or(body.len());
        Some(match body[..eol].find("--") { Some(i) => 2 + i + 2, None => 2 + eol })
    }
    let texts = ["-- c -- b INTEGER", "---- b BOOLEAN", "--\nnext", "-- c\nnext", "--", "-- c", "-- c --", "----", "----- x", "-- a ---5", "-- a -- -- b --", "--\"q\" { } END --x", "-- \u{e9}t\u{e9} -- y", "------ z", "-- c -\nnext"];
    for t in texts {
        ctx.oblige(rule, &format!("{:?}", t), true);
        let want = oracle(t);
        match crate::nomchars::run(&ev, tail, t, 0, 0) {
            Ok(got) => {
                let got = got.map(|(p, _)| p);
                if got != want {
                    ctx.violate(rule, if got > want { "consumes-too-much" } else { "consumes-too-little" }, &f.file, f.line,
                        &format!("line_comment on {:?} consumes {:?} ({:?}); by X.680 12.6.3 the comment is {:?}: {}", t, got, got.map(|g| &t[..g]), want.map(|w| &t[..w]),
                            if got > want { "the notation behind the comment on the same line is commented out (a component disappears, or Ok turns into Err)" } else { "part of the comment is left for the next parser" }));
                }
            }
            Err(e) => { ctx.fail_closed(rule, &format!("[line_comment on {:?}]: {}", t, e)); break }
        }
    }
}
