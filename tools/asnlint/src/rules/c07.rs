//! C07 — value assignments and DEFAULTs denote the source abstract value (table clauses only).
use crate::eval::{Env, Evaluator, Val};
use crate::model::{self, tok, FnInfo, Model};
use crate::report::Ctx;
use crate::rules::util::*;
use serde_json::{json, Value};
use std::collections::BTreeMap;

pub fn inline_table(m: &Model, names: &[&str]) -> BTreeMap<String, (Vec<String>, syn::Block)> {
    let mut t = BTreeMap::new();
    for n in names {
        let c: Vec<&FnInfo> = m.fns.iter().filter(|f| f.name == *n).collect();
        if c.len() == 1 {
            let params = c[0].sig.inputs.iter().filter_map(|a| match a {
                syn::FnArg::Typed(t) => Some(tok(&t.pat).replace("mut ", "")),
                _ => None,
            }).collect();
            t.insert(n.to_string(), (params, c[0].block.clone()));
        }
    }
    t
}

fn bits_of(b: u8) -> Vec<Val> {
    (0..8).map(|i| Val::Bool(b & (0x80 >> i) != 0)).collect()
}

/// C07.named (lookup): ASN1Value::link_enum_or_distinguished — the resolver of an identifier against the chain of governing
/// types — is evaluated on a small definition map in which value assignments carry the same names as a named number and an
/// enumeral: the identifier denotes the named number / enumeral of the governing type (X.680 19.10, 20.8), directly and
/// through a reference to the defining type, and is not found in a type that does not define it.
pub fn named_lookup(m: &Model, ctx: &mut Ctx, rule: &str) {
    use std::collections::BTreeMap as Map;
    let Some(f) = m.fns.iter().find(|f| f.name == "link_enum_or_distinguished" && f.self_ty.as_deref() == Some("ASN1Value")) else {
        ctx.fail_closed(rule, "anchor not found: ASN1Value::link_enum_or_distinguished");
        return;
    };
    ctx.func(&f.key);
    let consts = const_resolver(m);
    let named = |n: &str, fields: Vec<(&str, Val)>| Val::Ctor(n.to_string(), vec![], fields.into_iter().map(|(k, v)| (k.to_string(), v)).collect::<Map<_, _>>());
    let tld = |ty: Val| Val::Ctor("Type".into(), vec![named("ToplevelTypeDefinition", vec![("ty", ty)])], Map::new());
    let int_ty = Val::Ctor("Integer".into(), vec![named("Integer", vec![
        ("distinguished_values", Val::some(Val::List(vec![named("DistinguishedValue", vec![("name", Val::Str("unavailable".into())), ("value", Val::int(127))])]))),
        ("constraints", Val::List(vec![])),
    ])], Map::new());
    let enum_ty = Val::Ctor("Enumerated".into(), vec![named("Enumerated", vec![
        ("members", Val::List(vec![named("Enumeral", vec![("name", Val::Str("green".into()))]), named("Enumeral", vec![("name", Val::Str("blue".into()))])])),
    ])], Map::new());
    let alias = |to: &str| Val::Ctor("ElsewhereDeclaredType".into(), vec![named("DeclarationElsewhere", vec![("identifier", Val::Str(to.into()))])], Map::new());
    let value = Val::Ctor("Value".into(), vec![named("ToplevelValueDefinition", vec![("name", Val::Str("v".into()))])], Map::new());
    let defs: Vec<(&str, Val)> = vec![
        ("SpeedValue", tld(int_ty)), ("Speed", tld(alias("SpeedValue"))), ("Colour", tld(enum_ty)), ("Shade", tld(alias("Colour"))),
        // value assignments that happen to be named like a named number and an enumeral
        ("unavailable", value.clone()), ("green", value.clone()),
    ];
    let hook = move |_: &Evaluator, name: &str, a: &[Val]| -> Option<Result<Val, String>> {
        match (name, a.first()) {
            (".get", Some(Val::Opaque(s))) if s == "tlds" => match a.get(1) {
                Some(Val::Str(k)) => Some(Ok(defs.iter().find(|(n, _)| n == k).map(|(_, v)| Val::some(v.clone())).unwrap_or(Val::none()))),
                _ => Some(Err("tlds.get with a key that is not a name".into())),
            },
            _ => None,
        }
    };
    let inl = inline_all(m, &["ASN1Value"]);
    let ev = Evaluator { consts: &consts, call_hook: &hook, inline: Some(&inl) };
    let params: Vec<String> = f.sig.inputs.iter().filter_map(|a| match a { syn::FnArg::Typed(t) => Some(tok(&t.pat).trim_start_matches("mut ").to_string()), _ => None }).collect();
    if params.len() != 4 {
        ctx.fail_closed(rule, "link_enum_or_distinguished: expected (tlds, governing reference, identifier, supertypes)");
        return;
    }
    for (gov, id, want) in [("SpeedValue", "unavailable", Some("SpeedValue(127)")), ("Speed", "unavailable", Some("Speed(SpeedValue(127))")), ("Colour", "green", Some("Colour::green")), ("Shade", "green", Some("Shade(Colour::green)")), ("Colour", "unavailable", None), ("SpeedValue", "green", None)] {
        ctx.oblige(rule, &format!("lookup:{}:{}", gov, id), true);
        let mut env = Env::new();
        env.insert(params[0].clone(), Val::Opaque("tlds".into()));
        env.insert(params[1].clone(), named("DeclarationElsewhere", vec![("identifier", Val::Str(gov.into()))]));
        env.insert(params[2].clone(), Val::Str(id.into()));
        // as the caller in link_with_type does: the list of supertypes starts with the governing reference
        env.insert(params[3].clone(), Val::List(vec![Val::Str(gov.into())]));
        let got = match ev.eval_fn_body(&f.block, &mut env) {
            Ok(Val::Ctor(ok, p, _)) if ok == "Ok" => match p.first() {
                Some(Val::Ctor(s, q, _)) if s == "Some" => {
                    // render: the enumeral as Type::name, a named number as its number
                    fn render(v: &Val) -> String {
                        match v {
                            Val::Ctor(n, _, f) if n == "EnumeratedValue" => format!("{}::{}", f.get("enumerated").map(|x| x.show()).unwrap_or_default().trim_matches('"'), f.get("enumerable").map(|x| x.show()).unwrap_or_default().trim_matches('"')),
                            // the references that lead to the defining type are delegates around the value
                            Val::Ctor(n, _, f) if n == "LinkedNestedValue" => {
                                let inner = f.get("value").map(render).unwrap_or_default();
                                match f.get("supertypes") {
                                    Some(Val::List(l)) => l.iter().rev().fold(inner, |acc, t| format!("{}({})", t.show().trim_matches('"'), acc)),
                                    _ => inner,
                                }
                            }
                            Val::Ctor(n, _, f) if n == "LinkedIntValue" => match f.get("value") { Some(Val::Int { v, .. }) => v.to_string(), o => format!("{:?}", o.map(|x| x.show())) },
                            o => o.show(),
                        }
                    }
                    Some(q.first().map(render).unwrap_or_default())
                }
                Some(Val::Ctor(s, _, _)) if s == "None" => None,
                o => { ctx.fail_closed(rule, &format!("[{} / {}]: result {:?}", gov, id, o.map(|x| x.show()))); continue }
            },
            Ok(o) => { ctx.fail_closed(rule, &format!("[{} / {}]: result {}", gov, id, o.show())); continue }
            Err(e) => { ctx.fail_closed(rule, &format!("[{} / {}]: {}", gov, id, e)); continue }
        };
        if got.as_deref() != want {
            ctx.violate(rule, &format!("governing-type-name:{}", if want.is_some() { "not-found" } else { "found-elsewhere" }), &f.file, f.line,
                &format!("`{}` as a value of type {} (value assignments `unavailable` and `green` also exist; Speed ::= SpeedValue, Shade ::= Colour) resolves to {:?}; by X.680 19.10 / 20.8 it is {:?}: the named number / enumeral of the governing type, wherever else the name is used, wrapped in the type references that lead to the defining type (each is a delegate struct in the bindings)", id, gov, got, want));
        }
    }
}

/// C07.named (enumerals): an identifier given as the value of an ENUMERATED type denotes the enumeral of *that* type. The arms
/// of ASN1Value::link_with_type for (ENUMERATED, identifier) are evaluated with two enumerations defining the same enumeral,
/// the governing one sorting last.
pub fn enumeral_lookup(m: &Model, ctx: &mut Ctx, rule: &str) {
    use std::collections::BTreeMap as Map;
    let Some(f) = m.fns.iter().find(|f| f.name == "link_with_type" && f.self_ty.as_deref() == Some("ASN1Value")) else {
        ctx.fail_closed(rule, "anchor not found: ASN1Value::link_with_type");
        return;
    };
    ctx.func(&f.key);
    let Some(mt) = model::matches_in(&f.block).into_iter().max_by_key(|mt| mt.arms.len()) else {
        ctx.fail_closed(rule, "link_with_type: no match");
        return;
    };
    let consts = const_resolver(m);
    let named = |n: &str, fields: Vec<(&str, Val)>| Val::Ctor(n.to_string(), vec![], fields.into_iter().map(|(k, v)| (k.to_string(), v)).collect::<Map<_, _>>());
    let defs: Vec<(&str, Vec<&str>)> = vec![("A-Enum", vec!["same", "other"]), ("M-Int", vec![]), ("Z-Enum", vec!["first", "same"])];
    let defs2 = defs.clone();
    // definitions as the linker sees them; has_enum_value / name() are the crate's own code (inlined)
    let tld_of = move |n: &str, ms: &Vec<&str>| -> Val {
        let ty = if ms.is_empty() {
            Val::Ctor("Integer".into(), vec![Val::Opaque("integer".into())], Map::new())
        } else {
            let members = Val::List(ms.iter().enumerate().map(|(i, m)| named("Enumeral", vec![("name", Val::Str(m.to_string())), ("index", Val::int(i as i128))])).collect());
            Val::Ctor("Enumerated".into(), vec![named("Enumerated", vec![("members", members)])], Map::new())
        };
        Val::Ctor("Type".into(), vec![named("ToplevelTypeDefinition", vec![("name", Val::Str(n.to_string())), ("ty", ty)])], Map::new())
    };
    let hook = move |_: &Evaluator, name: &str, a: &[Val]| -> Option<Result<Val, String>> {
        match (name, a.first()) {
            (".iter", Some(Val::Opaque(s))) | (".values", Some(Val::Opaque(s))) if s == "tlds" => Some(Ok(Val::List(defs2.iter().map(|(n, ms)| {
                let t = tld_of(n, ms);
                if name == ".iter" { Val::Tuple(vec![Val::Str(n.to_string()), t]) } else { t }
            }).collect()))),
            // the three definitions are types: no value assignment of any name
            (".get", Some(Val::Opaque(s))) if s == "tlds" => Some(Ok(Val::none())),
            _ => None,
        }
    };
    let mut inl = inline_all(m, &["ToplevelDefinition"]);
    inl.extend(inline_table(m, &["resolve_value_reference"]));
    let ev = Evaluator { consts: &consts, call_hook: &hook, inline: Some(&inl) };
    let params: Vec<String> = f.sig.inputs.iter().filter_map(|a| match a { syn::FnArg::Typed(t) => Some(tok(&t.pat)), _ => None }).collect();
    for (nested, id) in [(false, "same"), (true, "same"), (false, "other"), (true, "other")] {
        let key = format!("enumeral-of-governing-type:{}:{}", if nested { "nested" } else { "direct" }, id);
        ctx.oblige(rule, &key, true);
        let ident = named("ElsewhereDeclaredValue", vec![("identifier", Val::Str(id.into())), ("parent", Val::none()), ("module", Val::none())]);
        let value = if nested { named("LinkedNestedValue", vec![("supertypes", Val::List(vec![])), ("value", ident)]) } else { ident };
        let ty = Val::Ctor("Enumerated".into(), vec![Val::Opaque("enumerated".into())], Map::new());
        let mut env = Env::new();
        env.insert("self".into(), value.clone());
        env.insert(params.first().cloned().unwrap_or("tlds".into()), Val::Opaque("tlds".into()));
        env.insert(params.get(1).cloned().unwrap_or("ty".into()), ty.clone());
        env.insert(params.get(2).cloned().unwrap_or("type_name".into()), Val::some(Val::Str("Z-Enum".into())));
        let r = ev.select_arm(&mt, &Val::Tuple(vec![ty, value]), &env).and_then(|(i, mut e2)| {
            ev.eval(&mt.arms[i].body, &mut e2)?;
            // the arm writes through the binding of the matched value (`*self = ..` / `**value = ..`)
            let mut found = None;
            for (_, v) in e2.iter() {
                let sh = v.show();
                if let Some(p) = sh.find("EnumeratedValue{") {
                    found = Some(sh[p..].to_string());
                }
            }
            found.ok_or_else(|| "the arm does not produce an EnumeratedValue".to_string())
        });
        match r {
            // `other` is no enumeral of the governing type Z-Enum: whatever it is resolved to, it is not `Z-Enum::other`
            Ok(sh) if id == "other" => {
                if sh.contains("enumerated:\"Z-Enum\"") {
                    ctx.violate(rule, "enumeral-not-defined-by-type", &f.file, crate::rules::util::span_line(&mt),
                        &format!("`other` as a value of type Z-Enum ::= ENUMERATED {{ first, same }} is linked as `{}`: Z-Enum has no such enumeral", sh.chars().take(90).collect::<String>()));
                }
            }
            Err(_) if id == "other" => {}
            Ok(sh) => {
                if !sh.contains("enumerated:\"Z-Enum\"") {
                    ctx.violate(rule, "enumeral-of-another-type", &f.file, crate::rules::util::span_line(&mt),
                        &format!("`same` as a value of type Z-Enum (A-Enum ::= ENUMERATED {{ same, other }} sorts first) is linked as `{}`: it is the enumeral of the governing type — `v Z-Enum ::= same` would be emitted as `AEnum::same`", sh.chars().take(90).collect::<String>()));
                }
            }
            Err(e) => ctx.fail_closed(rule, &format!("[{}]: {}", key, e)),
        }
    }
}

/// C07.named (inline INTEGER): an identifier given as the value of an INTEGER type with its own named numbers
/// (`a INTEGER { first(1), limit(5) } DEFAULT limit`) is that named number. The arm of link_with_type for (INTEGER, identifier)
/// is evaluated with the wanted name *second* in the list.
pub fn inline_named_number(m: &Model, ctx: &mut Ctx, rule: &str) {
    use std::collections::BTreeMap as Map;
    let Some(f) = m.fns.iter().find(|f| f.name == "link_with_type" && f.self_ty.as_deref() == Some("ASN1Value")) else {
        ctx.fail_closed(rule, "anchor not found: ASN1Value::link_with_type");
        return;
    };
    let Some(mt) = model::matches_in(&f.block).into_iter().max_by_key(|mt| mt.arms.len()) else { return };
    let consts = const_resolver(m);
    let hook = |_: &Evaluator, name: &str, _a: &[Val]| -> Option<Result<Val, String>> {
        match name {
            ".int_type" => Some(Ok(Val::Sym("INT".into()))),
            // no value assignment of that name exists in this scenario
            ".get" if matches!(_a.first(), Some(Val::Opaque(s)) if s == "tlds") => Some(Ok(Val::none())),
            _ => None,
        }
    };
    // the helper that follows value references (if the crate has one) is the crate's own code
    let inl = inline_table(m, &["resolve_value_reference"]);
    let ev = Evaluator { consts: &consts, call_hook: &hook, inline: Some(&inl) };
    let named = |n: &str, fields: Vec<(&str, Val)>| Val::Ctor(n.to_string(), vec![], fields.into_iter().map(|(k, v)| (k.to_string(), v)).collect::<Map<_, _>>());
    let dv = |n: &str, v: i128| named("DistinguishedValue", vec![("name", Val::Str(n.into())), ("value", Val::int(v))]);
    let ty = Val::Ctor("Integer".into(), vec![named("Integer", vec![("distinguished_values", Val::some(Val::List(vec![dv("first", 1), dv("limit", 5)]))), ("constraints", Val::List(vec![]))])], Map::new());
    for (id, want) in [("limit", Some(5i128)), ("first", Some(1)), ("other", None)] {
        ctx.oblige(rule, &format!("inline-named-number:{}", id), true);
        let value = named("ElsewhereDeclaredValue", vec![("identifier", Val::Str(id.into())), ("parent", Val::none()), ("module", Val::none())]);
        let mut env = Env::new();
        env.insert("self".into(), value.clone());
        env.insert("tlds".into(), Val::Opaque("tlds".into()));
        env.insert("type_name".into(), Val::none());
        let r = ev.select_arm(&mt, &Val::Tuple(vec![ty.clone(), value]), &env).and_then(|(i, mut e2)| {
            ev.eval(&mt.arms[i].body, &mut e2)?;
            Ok(e2.get("self").map(|v| v.show()).unwrap_or_default())
        });
        match r {
            Ok(sh) => {
                let got = if sh.starts_with("LinkedIntValue{") { sh.split("value:").nth(1).and_then(|r| r.trim_end_matches('}').parse::<i128>().ok()) } else { None };
                if got != want {
                    ctx.violate(rule, "inline-named-number", &f.file, crate::rules::util::span_line(&mt),
                        &format!("`{}` as a value of INTEGER {{ first(1), limit(5) }} is linked as `{}`; expected {:?}", id, sh.chars().take(80).collect::<String>(), want));
                }
            }
            Err(e) => ctx.fail_closed(rule, &format!("[inline named number {}]: {}", id, e)),
        }
    }
}

/// C07.ref: `b T ::= a` — an identifier that is no named number / enumeral of the governing type but the name of another
/// value assignment denotes that assignment's value. The generators render a value that is still a bare reference as
/// `T(NAME)`, which is not the value (and does not type-check for INTEGER and ENUMERATED governors), so the arm of
/// ASN1Value::link_with_type selected for (governor, reference) is evaluated with a definitions table in which the name is a
/// value assignment: afterwards the value is that assignment's value, not the reference.
pub fn value_reference(m: &Model, ctx: &mut Ctx, rule: &str) {
    use std::collections::BTreeMap as Map;
    let Some(f) = m.fns.iter().find(|f| f.name == "link_with_type" && f.self_ty.as_deref() == Some("ASN1Value")) else {
        ctx.fail_closed(rule, "anchor not found: ASN1Value::link_with_type");
        return;
    };
    ctx.func(&f.key);
    let Some(mt) = model::matches_in(&f.block).into_iter().max_by_key(|mt| mt.arms.len()) else {
        ctx.fail_closed(rule, "link_with_type: no match");
        return;
    };
    let consts = const_resolver(m);
    let named = |n: &str, fields: Vec<(&str, Val)>| Val::Ctor(n.to_string(), vec![], fields.into_iter().map(|(k, v)| (k.to_string(), v)).collect::<Map<_, _>>());
    let enum_tld = {
        let members = Val::List(["first", "same"].iter().enumerate().map(|(i, m)| named("Enumeral", vec![("name", Val::Str(m.to_string())), ("index", Val::int(i as i128))])).collect());
        let ty = Val::Ctor("Enumerated".into(), vec![named("Enumerated", vec![("members", members)])], Map::new());
        Val::Ctor("Type".into(), vec![named("ToplevelTypeDefinition", vec![("name", Val::Str("E".into())), ("ty", ty)])], Map::new())
    };
    let referenced = Val::Ctor("Value".into(), vec![named("ToplevelValueDefinition", vec![("name", Val::Str("other".into())), ("value", Val::Sym("<value of other>".into()))])], Map::new());
    let defs: Vec<(&str, Val)> = vec![("E", enum_tld), ("other", referenced)];
    let hook = move |_: &Evaluator, name: &str, a: &[Val]| -> Option<Result<Val, String>> {
        match (name, a.first()) {
            (".iter", Some(Val::Opaque(s))) if s == "tlds" => Some(Ok(Val::List(defs.iter().map(|(n, t)| Val::Tuple(vec![Val::Str(n.to_string()), t.clone()])).collect()))),
            (".values", Some(Val::Opaque(s))) if s == "tlds" => Some(Ok(Val::List(defs.iter().map(|(_, t)| t.clone()).collect()))),
            (".get", Some(Val::Opaque(s))) if s == "tlds" => match a.get(1) {
                Some(Val::Str(k)) => Some(Ok(defs.iter().find(|(n, _)| n == k).map(|(_, v)| Val::some(v.clone())).unwrap_or(Val::none()))),
                _ => Some(Err("tlds.get with a key that is not a name".into())),
            },
            // re-linking the substituted value is the same function again: not followed
            (".link_with_type", _) => Some(Ok(Val::Ctor("Ok".into(), vec![Val::Unit], Map::new()))),
            (".int_type", _) => Some(Ok(Val::Sym("INT".into()))),
            _ => None,
        }
    };
    let mut inl = inline_all(m, &["ToplevelDefinition"]);
    inl.extend(inline_table(m, &["resolve_value_reference"]));
    let ev = Evaluator { consts: &consts, call_hook: &hook, inline: Some(&inl) };
    let params: Vec<String> = f.sig.inputs.iter().filter_map(|a| match a { syn::FnArg::Typed(t) => Some(tok(&t.pat)), _ => None }).collect();
    let dv = |n: &str, v: i128| named("DistinguishedValue", vec![("name", Val::Str(n.into())), ("value", Val::int(v))]);
    let governors: Vec<(&str, Val)> = vec![
        ("INTEGER", Val::Ctor("Integer".into(), vec![named("Integer", vec![("distinguished_values", Val::none()), ("constraints", Val::List(vec![]))])], Map::new())),
        ("INTEGER { first(1) }", Val::Ctor("Integer".into(), vec![named("Integer", vec![("distinguished_values", Val::some(Val::List(vec![dv("first", 1)]))), ("constraints", Val::List(vec![]))])], Map::new())),
        ("ENUMERATED { first, same }", Val::Ctor("Enumerated".into(), vec![Val::Opaque("enumerated".into())], Map::new())),
        ("BOOLEAN", Val::Ctor("Boolean".into(), vec![Val::Opaque("boolean".into())], Map::new())),
    ];
    // `b T ::= object.&field`: such a path is resolved for no governor — it must be answered with an error (a warning for the
    // definition), whatever the governor; an arm that takes it for a plain identifier leaves the bare reference in place
    for (label, ty) in governors.iter() {
        let key = format!("object-field-reference:{}", label.split(' ').next().unwrap_or(label));
        if label.contains("first(1)") {
            continue;
        }
        ctx.oblige(rule, &key, true);
        let value = named("ElsewhereDeclaredValue", vec![("identifier", Val::Str("id".into())), ("parent", Val::some(Val::Str("object.&".into()))), ("module", Val::none())]);
        let mut env = Env::new();
        env.insert("self".into(), value.clone());
        env.insert(params.first().cloned().unwrap_or("tlds".into()), Val::Opaque("tlds".into()));
        env.insert(params.get(1).cloned().unwrap_or("ty".into()), ty.clone());
        env.insert(params.get(2).cloned().unwrap_or("type_name".into()), Val::none());
        let r = ev.select_arm(&mt, &Val::Tuple(vec![ty.clone(), value]), &env).and_then(|(i, mut e2)| {
            let out = ev.eval(&mt.arms[i].body, &mut e2)?;
            Ok((out, e2.get("self").map(|v| v.show()).unwrap_or_default(), span_line(&mt.arms[i])))
        });
        match r {
            Ok((Val::Ctor(n, _, _), _, _)) if n == "Err" => {}
            Ok((_, sh, _)) if !sh.contains("ElsewhereDeclaredValue") => {}
            Ok((out, sh, line)) => ctx.violate(rule, &key, &f.file, line,
                &format!("`b T ::= object.&id` with T ::= {}: link_with_type returns {} and leaves the value as `{}` — no error, no resolution: the generators render it as `T(ID)` without a warning", label, out.show(), sh.chars().take(90).collect::<String>())),
            Err(e) => ctx.fail_closed(rule, &format!("[{}]: {}", key, e)),
        }
    }
    for (label, ty) in governors {
        let key = format!("value-reference:{}", label.split(' ').next().unwrap_or(label));
        let key = if label.contains("first(1)") { format!("{}-with-named-numbers", key) } else { key };
        ctx.oblige(rule, &key, true);
        let value = named("ElsewhereDeclaredValue", vec![("identifier", Val::Str("other".into())), ("parent", Val::none()), ("module", Val::none())]);
        let mut env = Env::new();
        env.insert("self".into(), value.clone());
        env.insert(params.first().cloned().unwrap_or("tlds".into()), Val::Opaque("tlds".into()));
        env.insert(params.get(1).cloned().unwrap_or("ty".into()), ty.clone());
        env.insert(params.get(2).cloned().unwrap_or("type_name".into()), if label.starts_with("ENUM") { Val::some(Val::Str("E".into())) } else { Val::none() });
        let r = ev.select_arm(&mt, &Val::Tuple(vec![ty.clone(), value]), &env).and_then(|(i, mut e2)| {
            ev.eval(&mt.arms[i].body, &mut e2)?;
            Ok((e2.get("self").map(|v| v.show()).unwrap_or_default(), span_line(&mt.arms[i])))
        });
        match r {
            Ok((sh, line)) => {
                if !sh.contains("<value of other>") {
                    ctx.violate(rule, &key, &f.file, line,
                        &format!("`b T ::= other` with T ::= {} and `other` a value assignment: after linking the value is `{}` — the reference is not replaced by the referenced assignment's value, and the generators render a bare reference as `T(OTHER)`", label, sh.chars().take(100).collect::<String>()));
                }
            }
            Err(e) => ctx.fail_closed(rule, &format!("[{}]: {}", key, e)),
        }
    }
    // `vb Bb ::= { b1 first, .. }` with `Bb ::= SEQUENCE { b1 ENUMERATED { first, same }, .. }`: the governor of the component value
    // is the anonymous ENUMERATED, named INNER$b1$Bb by link_struct_like. The enumeral is one of *its* members: the value must
    // become that type's enumeral or be refused — not stay a bare reference (rendered as the constant `FIRST`, which nothing
    // defines) and not become the enumeral of an unrelated top-level type that happens to have a member of that name.
    for (key, enumeral) in [("nested-enumeral", "first"), ("nested-enumeral:unique-name", "only-here")] {
        ctx.oblige(rule, key, true);
        let prefix = match consts("INTERNAL_NESTED_TYPE_NAME_PREFIX") { Some(Val::Str(p)) => p, _ => "INNER$".to_string() };
        let nested = format!("{}b1$Bb", prefix);
        let members = Val::List(["first", "same", "only-here"].iter().enumerate().map(|(i, m)| named("Enumeral", vec![("name", Val::Str(m.to_string())), ("index", Val::int(i as i128))])).collect());
        let ty = Val::Ctor("Enumerated".into(), vec![named("Enumerated", vec![("members", members), ("extensible", Val::none()), ("constraints", Val::List(vec![]))])], Map::new());
        let value = named("ElsewhereDeclaredValue", vec![("identifier", Val::Str(enumeral.into())), ("parent", Val::none()), ("module", Val::none())]);
        let mut env = Env::new();
        env.insert("self".into(), value.clone());
        env.insert(params.first().cloned().unwrap_or("tlds".into()), Val::Opaque("tlds".into()));
        env.insert(params.get(1).cloned().unwrap_or("ty".into()), ty.clone());
        env.insert(params.get(2).cloned().unwrap_or("type_name".into()), Val::some(Val::Str(nested.clone())));
        let r = ev.select_arm(&mt, &Val::Tuple(vec![ty.clone(), value]), &env).and_then(|(i, mut e2)| {
            let out = ev.eval(&mt.arms[i].body, &mut e2)?;
            Ok((out, e2.get("self").cloned().unwrap_or(Val::Unit), span_line(&mt.arms[i])))
        });
        match r {
            Ok((Val::Ctor(n, _, _), _, _)) if n == "Err" => {}
            Ok((_, Val::Ctor(n, _, f2), line)) if n == "EnumeratedValue" => {
                let en = match f2.get("enumerated") { Some(Val::Str(s)) => s.clone(), Some(o) => o.show(), None => String::new() };
                if en != nested {
                    ctx.violate(rule, "nested-enumeral:foreign-type", &f.file, line,
                        &format!("`vb Bb ::= {{ b1 first }}` with `b1 ENUMERATED {{ first, same }}` inside Bb: the value becomes the enumeral `first` of the type `{}` — an unrelated top-level ENUMERATED that also has a member `first` — and is rendered `{}::first` where the component's own type is expected", en, en));
                }
            }
            Ok((_, v, line)) => ctx.violate(rule, "nested-enumeral:bare-reference", &f.file, line,
                &format!("`vb Bb ::= {{ b1 only-here, .. }}` with `b1 ENUMERATED {{ first, same, only-here }}` defined inside Bb: after linking the component value is `{}` — neither the enumeral of the component's own type nor an error; the generators render it as the constant `ONLY_HERE`, which nothing defines (E0425 in the bindings, no warning)", v.show().chars().take(100).collect::<String>())),
            Err(e) => ctx.fail_closed(rule, &format!("[{}]: {}", key, e)),
        }
    }
}

/// C07.nest (CHOICE in CHOICE): `val Ty8 ::= m3 : m5 : TRUE` with `Ty8 ::= CHOICE { m3 CHOICE { m4 INTEGER, m5 BOOLEAN }, .. }`.
/// The inner value is a value of the anonymous type of alternative m3, which is generated as `Ty8M3` (the generators turn
/// the linker's internal name INNER$m3$Ty8 into it). link_with_type is evaluated on the nested value: afterwards the inner
/// CHOICE value carries that internal name — not the spelling of the type's keyword (`CHOICE::m5(true)` names nothing).
pub fn nested_choice_value(m: &Model, ctx: &mut Ctx, rule: &str) {
    use std::collections::BTreeMap as Map;
    let Some(f) = m.fns.iter().find(|f| f.name == "link_with_type" && f.self_ty.as_deref() == Some("ASN1Value")) else {
        ctx.fail_closed(rule, "anchor not found: ASN1Value::link_with_type");
        return;
    };
    ctx.oblige(rule, "choice-in-choice", true);
    let consts = const_resolver(m);
    let params: Vec<String> = f.sig.inputs.iter().filter_map(|a| match a { syn::FnArg::Typed(t) => Some(tok(&t.pat)), _ => None }).collect();
    let mut inl = inline_all(m, &["ASN1Type", "ASN1Value"]);
    inl.retain(|k, _| [".is_builtin_type", ".as_str", "nested_type_name", ".link_with_type"].contains(&k.as_str()));
    let ev = Evaluator { consts: &consts, call_hook: &crate::eval::no_hook, inline: Some(&inl) };
    let named = |n: &str, fields: Vec<(&str, Val)>| Val::Ctor(n.to_string(), vec![], fields.into_iter().map(|(k, v)| (k.to_string(), v)).collect::<Map<_, _>>());
    let option = |n: &str, ty: Val| named("ChoiceOption", vec![("name", Val::Str(n.into())), ("ty", ty), ("is_recursive", Val::Bool(false)), ("tag", Val::none()), ("constraints", Val::List(vec![]))]);
    let choice = |os: Vec<Val>| Val::Ctor("Choice".into(), vec![named("Choice", vec![("options", Val::List(os)), ("extensible", Val::none()), ("constraints", Val::List(vec![]))])], Map::new());
    let boolean = Val::Ctor("Boolean".into(), vec![named("Boolean", vec![("constraints", Val::List(vec![]))])], Map::new());
    let inner_ty = choice(vec![option("m5", boolean.clone())]);
    let outer_ty = choice(vec![option("m3", inner_ty), option("m9", boolean)]);
    let cv = |variant: &str, inner: Val| named("Choice", vec![("type_name", Val::none()), ("variant_name", Val::Str(variant.into())), ("inner_value", inner)]);
    let value = cv("m3", cv("m5", Val::Ctor("Boolean".into(), vec![Val::Bool(true)], Map::new())));
    let mut env = Env::new();
    env.insert("self".into(), value);
    env.insert(params.first().cloned().unwrap_or("tlds".into()), crate::eval::new_map());
    env.insert(params.get(1).cloned().unwrap_or("ty".into()), outer_ty);
    env.insert(params.get(2).cloned().unwrap_or("type_name".into()), Val::some(Val::Str("Ty8".into())));
    match ev.eval_fn_body(&f.block, &mut env) {
        Ok(Val::Ctor(ok, _, _)) if ok == "Ok" => {
            let inner_name = match env.get("self") {
                Some(Val::Ctor(_, _, fl)) => match fl.get("inner_value") {
                    Some(Val::Ctor(_, _, il)) => il.get("type_name").map(|v| v.show()),
                    _ => None,
                },
                _ => None,
            }.unwrap_or_default();
            let prefix = match consts("INTERNAL_NESTED_TYPE_NAME_PREFIX") { Some(Val::Str(p)) => p, _ => "INNER$".to_string() };
            if !inner_name.contains(&format!("{}m3$Ty8", prefix)) {
                ctx.violate(rule, "choice-in-choice:inner-type-name", &f.file, f.line,
                    &format!("`val Ty8 ::= m3 : m5 : TRUE` with `m3 CHOICE {{ .. }}` written inside Ty8: after linking, the inner CHOICE value is typed {} — the generators render `Ty8::m3({}::m5(true))`; the anonymous type of the alternative is generated as `Ty8M3` (internal name {}m3$Ty8)", inner_name, inner_name.trim_start_matches("Some(\"").trim_end_matches("\")"), prefix));
            }
        }
        Ok(Val::Ctor(e, _, _)) if e == "Err" => {}
        Ok(o) => ctx.fail_closed(rule, &format!("[choice-in-choice]: {}", o.show().chars().take(100).collect::<String>())),
        Err(e) => ctx.fail_closed(rule, &format!("[choice-in-choice]: {}", e)),
    }
}

/// The generator side of the same notation: `Rasn::value_to_tokens` turns the linker's internal name `INNER$<alternative>$<parent>`
/// of a nested CHOICE value into the Rust name of the hoisted type. The hoisted type is *declared* under
/// inner_name(<alternative as written>, <Rust name of the parent>) (C01.inner); the value side must arrive at the same
/// identifier — in particular the parent's ASN.1 spelling (`My-Type`) has to pass through the type-name mangler, or the
/// identifier is built from a raw ASN.1 name (`format_ident!("My-TypeA")` panics; `Ty_8` vs `Ty8` would not resolve).
pub fn nested_choice_ident(m: &Model, ctx: &mut Ctx, rule: &str) {
    use std::collections::BTreeMap as Map;
    let Some(f) = m.fns.iter().find(|f| f.name == "value_to_tokens" && f.self_ty.as_deref() == Some("Rasn")) else {
        ctx.fail_closed(rule, "anchor not found: Rasn::value_to_tokens");
        return;
    };
    ctx.oblige(rule, "nested-choice-value:type-identifier", true);
    let consts = const_resolver(m);
    let mut inl = inline_all(m, &["Rasn"]);
    inl.retain(|k, _| [".inner_name", ".value_to_tokens"].contains(&k.as_str()));
    let hook = |_: &Evaluator, name: &str, a: &[Val]| -> Option<Result<Val, String>> {
        match name {
            ".to_rust_title_case" | ".to_rust_enum_identifier" | ".to_rust_snake_case" => match a.get(1) {
                Some(Val::Str(n)) | Some(Val::Sym(n)) => Some(Ok(Val::Sym(format!("{}<{}>", if name.ends_with("title_case") { "T" } else { "M" }, n)))),
                _ => None,
            },
            ".to_token_stream" | ".to_owned" | ".clone" if a.len() == 1 => Some(Ok(a[0].clone())),
            ".to_string" if a.len() == 1 => Some(Ok(match &a[0] { Val::Sym(s) => Val::Str(s.clone()), o => o.clone() })),
            _ => None,
        }
    };
    let ev = Evaluator { consts: &consts, call_hook: &hook, inline: Some(&inl) };
    let prefix = match consts("INTERNAL_NESTED_TYPE_NAME_PREFIX") { Some(Val::Str(p)) => p, _ => "INNER$".to_string() };
    let named = |n: &str, fields: Vec<(&str, Val)>| Val::Ctor(n.to_string(), vec![], fields.into_iter().map(|(k, v)| (k.to_string(), v)).collect::<Map<_, _>>());
    let value = named("Choice", vec![("type_name", Val::some(Val::Str(format!("{}m3$My-Type8", prefix)))), ("variant_name", Val::Str("m5".into())), ("inner_value", Val::Ctor("Boolean".into(), vec![Val::Bool(true)], Map::new()))]);
    let params: Vec<String> = f.sig.inputs.iter().filter_map(|a| match a { syn::FnArg::Typed(t) => Some(tok(&t.pat)), _ => None }).collect();
    let mut env = Env::new();
    env.insert("self".into(), Val::ctor("Rasn"));
    env.insert(params.first().cloned().unwrap_or("value".into()), value);
    env.insert(params.get(1).cloned().unwrap_or("type_name".into()), Val::none());
    match ev.eval_fn_body(&f.block, &mut env) {
        Ok(Val::Ctor(ok, p, _)) if ok == "Ok" => {
            let text = p.first().map(|v| match v { Val::Sym(s) | Val::Str(s) => s.clone(), o => o.show() }).unwrap_or_default().replace(' ', "");
            // the hoisted type is declared as inner_name("m3", <Rust name of My-Type8>) = T<My-Type8> ++ T<m3>
            if !text.contains("T<My-Type8>T<m3>") {
                ctx.violate(rule, "nested-choice-value:type-identifier", &f.file, f.line,
                    &format!("`v My-Type8 ::= m3 : m5 : TRUE` (m3 an inline CHOICE): value_to_tokens renders the nested value as `{}` (T<..> = through to_rust_title_case); the hoisted type is declared under the Rust name of the parent followed by the title-cased alternative, T<My-Type8>T<m3> — the parent's ASN.1 spelling reaches the identifier unmangled (format_ident! panics on `My-Type8M3`)", text.chars().take(120).collect::<String>()));
            }
        }
        Ok(Val::Ctor(e, _, _)) if e == "Err" => {}
        Ok(o) => ctx.fail_closed(rule, &format!("[nested-choice-value]: {}", o.show().chars().take(100).collect::<String>())),
        Err(e) => ctx.fail_closed(rule, &format!("[nested-choice-value]: {}", e)),
    }
}

/// C07.guard (contradiction rule over link_with_type): an arm whose guard states what the nested value is
/// (`matches![**value, ASN1Value::A(_)]`) and whose body then asks for another form (`if let ASN1Value::B(..) = &**value`)
/// believes two things at once — the body can never run, and the conversion the arm exists for is silently skipped.
pub fn guard_contradictions(m: &Model, ctx: &mut Ctx, rule: &str) {
    let Some(f) = m.fns.iter().find(|f| f.name == "link_with_type" && f.self_ty.as_deref() == Some("ASN1Value")) else {
        ctx.fail_closed(rule, "anchor not found: ASN1Value::link_with_type");
        return;
    };
    let Some(mt) = model::matches_in(&f.block).into_iter().max_by_key(|mt| mt.arms.len()) else {
        ctx.fail_closed(rule, "link_with_type: no match");
        return;
    };
    let variant_after = |t: &str, key: &str| -> Option<String> {
        let i = t.find(key)?;
        Some(t[i + key.len()..].chars().take_while(|c| c.is_alphanumeric()).collect())
    };
    let mut n = 0;
    for arm in mt.arms.iter() {
        let Some((_, g)) = &arm.guard else { continue };
        let gt = tok(g);
        // matches![**value, ASN1Value::X(..)] (also `matches!(&**value, ..)`)
        if !gt.starts_with("matches!") || !gt.contains("value") {
            continue;
        }
        let Some(stated) = variant_after(&gt, "ASN1Value::") else { continue };
        struct IfLets { out: Vec<(String, usize)> }
        impl model::DeepCb for IfLets {
            fn expr(&mut self, e: &syn::Expr) {
                if let syn::Expr::Let(l) = e {
                    let s = tok(&l.expr);
                    if s.contains("**value") {
                        self.out.push((tok(&l.pat), span_line(l)));
                    }
                }
            }
        }
        let mut c = IfLets { out: vec![] };
        model::deep_walk_expr(&arm.body, &mut c);
        for (pat, line) in c.out {
            let Some(asked) = variant_after(&pat, "ASN1Value::") else { continue };
            n += 1;
            ctx.oblige(rule, &format!("arm:{}:{}", stated, asked), true);
            if asked != stated {
                ctx.violate(rule, &format!("guard-contradiction:{}-{}", stated, asked), &f.file, line,
                    &format!("an arm of link_with_type is guarded by `{}` and its body asks `if let {} = ..value`: the nested value cannot be both, so the body never runs and the arm links nothing (a {} value reached through a type reference keeps the form the lexer gave it)", gt.chars().take(70).collect::<String>(), pat.chars().take(40).collect::<String>(), asked));
            }
        }
    }
    ctx.floor(&format!("{}/guarded-arms", rule), n, 4);
}

/// C07.hex (through a reference): `'AB'H` / `'10101011'B` is a list of bits to the lexer. Under an OCTET STRING governor it
/// becomes octets — also when the governor is reached through a type reference (`Key ::= OCTET STRING  k Key ::= 'AB'H`,
/// a DEFAULT of a component of type Key), where the value is already wrapped in LinkedNestedValue. link_with_type is
/// evaluated on that wrapped value: afterwards the nested value is OctetString([0xAB]), not the bits.
pub fn octets_through_reference(m: &Model, ctx: &mut Ctx, rule: &str) {
    use std::collections::BTreeMap as Map;
    let Some(f) = m.fns.iter().find(|f| f.name == "link_with_type" && f.self_ty.as_deref() == Some("ASN1Value")) else {
        ctx.fail_closed(rule, "anchor not found: ASN1Value::link_with_type");
        return;
    };
    let consts = const_resolver(m);
    let mut inl = inline_all(m, &["ASN1Value"]);
    inl.retain(|k, _| !k.starts_with('.') || k == ".link_with_type");
    let hook = |_: &Evaluator, name: &str, a: &[Val]| -> Option<Result<Val, String>> {
        match (name, a.first()) {
            (".borrow_mut", Some(v)) | (".borrow", Some(v)) if a.len() == 1 && matches!(v, Val::Ctor(..)) => Some(Ok(v.clone())),
            ("grammar_error!", _) => Some(Ok(Val::Sym("GrammarError".into()))),
            _ => None,
        }
    };
    let ev = Evaluator { consts: &consts, call_hook: &hook, inline: Some(&inl) };
    let params: Vec<String> = f.sig.inputs.iter().filter_map(|a| match a { syn::FnArg::Typed(t) => Some(tok(&t.pat)), _ => None }).collect();
    let named = |n: &str, fields: Vec<(&str, Val)>| Val::Ctor(n.to_string(), vec![], fields.into_iter().map(|(k, v)| (k.to_string(), v)).collect::<Map<_, _>>());
    let bits: Vec<Val> = [1, 0, 1, 0, 1, 0, 1, 1].iter().map(|b| Val::Bool(*b == 1)).collect();
    let cases: Vec<(&str, Val, &str)> = vec![
        ("OCTET STRING", Val::Ctor("OctetString".into(), vec![named("OctetString", vec![("constraints", Val::List(vec![]))])], Map::new()), "OctetString([171])"),
        ("BIT STRING", Val::Ctor("BitString".into(), vec![named("BitString", vec![("constraints", Val::List(vec![])), ("distinguished_values", Val::none())])], Map::new()), "BitString([true,false,true,false,true,false,true,true])"),
    ];
    for (label, ty, want) in cases {
        let key = format!("hstring-through-reference:{}", label.replace(' ', "-"));
        ctx.oblige(rule, &key, true);
        let value = Val::Ctor("LinkedNestedValue".into(), vec![], [("supertypes".to_string(), Val::List(vec![Val::Str("Key".into())])), ("value".to_string(), Val::Ctor("BitString".into(), vec![Val::List(bits.clone())], Map::new()))].into_iter().collect());
        let mut env = Env::new();
        env.insert("self".into(), value);
        env.insert(params.first().cloned().unwrap_or("tlds".into()), crate::eval::new_map());
        env.insert(params.get(1).cloned().unwrap_or("ty".into()), ty);
        env.insert(params.get(2).cloned().unwrap_or("type_name".into()), Val::some(Val::Str("Key".into())));
        match ev.eval_fn_body(&f.block, &mut env) {
            Ok(Val::Ctor(ok, _, _)) if ok == "Ok" => {
                let got = match env.get("self") { Some(Val::Ctor(_, _, fl)) => fl.get("value").map(|v| v.show()).unwrap_or_default(), o => format!("{:?}", o.map(|v| v.show())) };
                if got != want {
                    ctx.violate(rule, &key, &f.file, f.line,
                        &format!("`Key ::= {}  k Key ::= 'AB'H` (also the DEFAULT of a component of type Key): after linking the value under the reference is `{}`, expected `{}` — the generators render the lexer's list of bits where the declared type holds {}", label, got.chars().take(90).collect::<String>(), want, if label.starts_with("OCTET") { "octets (`Key([true, false, ..].into_iter().collect())` does not type-check, no warning)" } else { "bits" }));
                }
            }
            Ok(Val::Ctor(e, _, _)) if e == "Err" => {}
            Ok(o) => ctx.fail_closed(rule, &format!("[{}]: {}", key, o.show().chars().take(100).collect::<String>())),
            Err(e) => ctx.fail_closed(rule, &format!("[{}]: {}", key, e)),
        }
    }
}

/// C07.cstring: "character strings with doubled quotes unescaped" starts with finding the end of the literal: the scanner
/// behind raw_string_literal (take_until_and_not(QUOTE, QUOTE QUOTE)) is evaluated on the text after an opening quotation
/// mark — the literal ends at the first quotation mark that is not doubled, whatever follows later in the file.
pub fn cstring_end(m: &Model, ctx: &mut Ctx, rule: &str) {
    let Some(f) = m.fns.iter().find(|f| f.name == "take_until_and_not" && f.module.starts_with("lexer")) else {
        ctx.fail_closed(rule, "anchor not found: lexer::util::take_until_and_not");
        return;
    };
    ctx.func(&f.key);
    let consts = const_resolver(m);
    let hook = |_: &Evaluator, name: &str, a: &[Val]| -> Option<Result<Val, String>> {
        match (name, a.first()) {
            // an Input is modelled by the text it stands for
            (".slice", Some(Val::Str(s))) => match a.get(1) {
                Some(Val::Ctor(n, p, _)) if n == "$range" => match p.first() {
                    Some(Val::Int { v, .. }) if (*v as usize) <= s.len() && s.is_char_boundary(*v as usize) => Some(Ok(Val::Str(s[*v as usize..].to_string()))),
                    _ => Some(Err("Input::slice out of range (the code would panic here)".into())),
                },
                _ => None,
            },
            (".find_substring", Some(Val::Str(s))) => match a.get(1) {
                Some(Val::Str(t)) => Some(Ok(s.find(t.as_str()).map(|i| Val::some(Val::int(i as i128))).unwrap_or(Val::none()))),
                _ => None,
            },
            (".take_split", Some(Val::Str(s))) => match a.get(1) {
                Some(Val::Int { v, .. }) if (*v as usize) <= s.len() && s.is_char_boundary(*v as usize) => Some(Ok(Val::Tuple(vec![Val::Str(s[*v as usize..].to_string()), Val::Str(s[..*v as usize].to_string())]))),
                _ => Some(Err("take_split out of range (the code would panic here)".into())),
            },
            (".into_inner", Some(Val::Str(s))) | (".inner", Some(Val::Str(s))) => Some(Ok(Val::Str(s.clone()))),
            (".len", Some(Val::Str(s))) => Some(Ok(Val::int(s.len() as i128))),
            _ => None,
        }
    };
    let ev = Evaluator { consts: &consts, call_hook: &hook, inline: None };
    let params: Vec<String> = f.sig.inputs.iter().filter_map(|a| match a { syn::FnArg::Typed(t) => Some(tok(&t.pat)), _ => None }).collect();
    let q = "\"";
    let cases: Vec<(String, Option<String>)> = vec![
        (format!("abc{q} x"), Some("abc".into())),
        (format!("abc{q}\ns2 UTF8String ::= {q}{q}\nEND"), Some("abc".into())),
        (format!("{q} x"), Some("".into())),
        (format!("{q}\nnext ::= {q}a{q}{q}b{q}"), Some("".into())),
        (format!("a{q}{q}b{q} x"), Some(format!("a{q}{q}b"))),
        (format!("a{q}{q}b{q} x {q}{q} y"), Some(format!("a{q}{q}b"))),
        (format!("{q}{q}{q} x"), Some(format!("{q}{q}"))),
        (format!("x{q}{q}{q}"), Some(format!("x{q}{q}"))),
        (format!("{q}{q}y{q} z {q}w{q}"), Some(format!("{q}{q}y"))),
        ("never closed".to_string(), None),
    ];
    for (text, want) in cases {
        let key = format!("end-of-literal:{}", text.replace('\n', "~").chars().take(24).collect::<String>());
        ctx.oblige(rule, &key, true);
        let mut env = Env::new();
        env.insert(params.first().cloned().unwrap_or("end_tag".into()), Val::Str(q.into()));
        env.insert(params.get(1).cloned().unwrap_or("however_tag".into()), Val::Str(format!("{q}{q}")));
        let got = ev.eval_fn_body(&f.block, &mut env).and_then(|c| match c {
            Val::Closure(cl, cenv) => {
                let mut e2 = (*cenv).clone();
                for (k, v) in env.iter() {
                    e2.entry(k.clone()).or_insert(v.clone());
                }
                ev.apply_closure(&syn::Expr::Closure((*cl).clone()), &[Val::Str(text.clone())], &e2)
            }
            o => Err(format!("take_until_and_not does not return a closure: {}", o.show())),
        });
        match got {
            Ok(Val::Ctor(ok, p, _)) if ok == "Ok" => {
                let lit = match p.first() { Some(Val::Tuple(t)) => match t.get(1) { Some(Val::Str(s)) => Some(s.clone()), _ => None }, _ => None };
                if lit != want {
                    ctx.violate(rule, "end-of-literal", &f.file, f.line,
                        &format!("after an opening quotation mark, the text {:?} is scanned as the literal {:?}; the literal is {:?} (it ends at the first quotation mark that is not doubled)", text, lit, want));
                }
            }
            Ok(Val::Ctor(e, _, _)) if e == "Err" => {
                if want.is_some() {
                    ctx.violate(rule, "end-of-literal", &f.file, f.line,
                        &format!("after an opening quotation mark, the text {:?} is rejected; the literal is {:?} — a doubled quotation mark further down in the file must not matter", text, want));
                }
            }
            Ok(o) => ctx.fail_closed(rule, &format!("[{}]: scanner result {}", key, o.show().chars().take(80).collect::<String>())),
            Err(e) => ctx.fail_closed(rule, &format!("[{}]: {}", key, e)),
        }
    }
}

/// C07.list: "SEQUENCE OF values". `{ 5 }` is lexed as an OBJECT IDENTIFIER value (one arc); under a SEQUENCE OF / SET OF type it
/// is the list with the single element 5. ASN1Value::link_with_type is evaluated on that pair (directly and below a type
/// reference): the value must leave as a list of one INTEGER, while `{ 5 6 }` and named arcs stay what they are.
pub fn single_element_list(m: &Model, ctx: &mut Ctx, rule: &str) {
    use std::collections::BTreeMap as Map;
    let Some(f) = m.fns.iter().find(|f| f.name == "link_with_type" && f.self_ty.as_deref() == Some("ASN1Value")) else {
        ctx.fail_closed(rule, "anchor not found: ASN1Value::link_with_type");
        return;
    };
    ctx.func(&f.key);
    let consts = const_resolver(m);
    let named = |n: &str, fields: Vec<(&str, Val)>| Val::Ctor(n.to_string(), vec![], fields.into_iter().map(|(k, v)| (k.to_string(), v)).collect::<Map<_, _>>());
    let hook = |_: &Evaluator, name: &str, a: &[Val]| -> Option<Result<Val, String>> {
        match name {
            "Self::link_array_like" | "ASN1Value::link_array_like" | "link_array_like" => Some(Ok(Val::Ctor("Ok".into(), vec![Val::Ctor("LinkedArrayLikeValue".into(), vec![a.first().cloned().unwrap_or(Val::Unit)], Map::new())], Map::new()))),
            "i128::try_from" | "i128::from" => match a.first() { Some(Val::Int { v, .. }) => Some(Ok(if name.ends_with("try_from") { Val::Ctor("Ok".into(), vec![Val::int(*v)], Map::new()) } else { Val::int(*v) })), _ => None },
            ".as_slice" | ".as_mut" | ".as_ref" if a.len() == 1 => Some(Ok(a[0].clone())),
            _ => None,
        }
    };
    let ev = Evaluator { consts: &consts, call_hook: &hook, inline: None };
    let params: Vec<String> = f.sig.inputs.iter().filter_map(|a| match a { syn::FnArg::Typed(t) => Some(tok(&t.pat)), _ => None }).collect();
    let arc = |name: Option<&str>, n: Option<i128>| named("ObjectIdentifierArc", vec![("name", name.map(|x| Val::some(Val::Str(x.into()))).unwrap_or(Val::none())), ("number", n.map(|x| Val::some(Val::int(x))).unwrap_or(Val::none()))]);
    let oid = |arcs: Vec<Val>| Val::Ctor("ObjectIdentifier".into(), vec![Val::Ctor("ObjectIdentifierValue".into(), vec![Val::List(arcs)], Map::new())], Map::new());
    let list_ty = Val::Ctor("SequenceOf".into(), vec![named("SequenceOrSetOf", vec![("element_type", Val::Ctor("Integer".into(), vec![Val::Opaque("int".into())], Map::new()))])], Map::new());
    for (what, value, want_list) in [
        ("{ 5 }", oid(vec![arc(None, Some(5))]), true),
        ("{ 5 } below a type reference", named("LinkedNestedValue", vec![("supertypes", Val::List(vec![Val::Str("List".into())])), ("value", oid(vec![arc(None, Some(5))]))]), true),
    ] {
        ctx.oblige(rule, what, true);
        let mut env = Env::new();
        env.insert("self".into(), value);
        env.insert(params.first().cloned().unwrap_or("tlds".into()), Val::Opaque("tlds".into()));
        env.insert(params.get(1).cloned().unwrap_or("ty".into()), list_ty.clone());
        env.insert(params.get(2).cloned().unwrap_or("type_name".into()), Val::none());
        match ev.eval_fn_body(&f.block, &mut env) {
            Ok(_) => {
                let after = env.get("self").map(|v| v.show()).unwrap_or_default();
                let is_list = after.contains("LinkedArrayLikeValue(") && after.contains("Integer(5)") && !after.contains("ObjectIdentifier(");
                if is_list != want_list {
                    ctx.violate(rule, "single-element-list-is-an-oid", &f.file, f.line,
                        &format!("the value `{}` of a SEQUENCE OF INTEGER leaves link_with_type as `{}`: lexically it is an OBJECT IDENTIFIER value, but under a list type it is the list with the one element 5 (it was emitted as Oid::const_new(&[5]) for `l List DEFAULT {{ 5 }}`)", what, after.chars().take(110).collect::<String>()));
                }
            }
            Err(e) => ctx.fail_closed(rule, &format!("[{}]: {}", what, e)),
        }
    }
}

/// C07.nest: "through chains of type references". A value whose governing type is reached through references T1 -> T2 -> T3 is
/// linked as LinkedNestedValue { supertypes: [T1, T2, T3], value }: each reference is a delegate struct, so the literal is
/// T1(T2(T3(value))) — outermost first — and the innermost name is what types the literal itself. Both renderers are evaluated.
/// C07.list (nested): `{ x 9 }` is lexically an OBJECT IDENTIFIER value; under a SEQUENCE / SET (OF) governor it is the value
/// `{ x 9 }` of that type, and link_with_type reinterprets it. Where the governing type is reached through a type reference
/// (`d Inner DEFAULT { x 9 }`, an element of `SEQUENCE OF Inner`, a CHOICE alternative of type Inner) the value arrives wrapped
/// in LinkedNestedValue: the arm chosen for (constructed type, wrapped OID-like value) must hand the inner value to the same
/// reinterpretation — otherwise it stays an OBJECT IDENTIFIER and is emitted as `Oid::new(&[&***X, &[9u32]].concat())`.
pub fn nested_struct_like(m: &Model, ctx: &mut Ctx, rule: &str) {
    use std::collections::BTreeMap as Map;
    let Some(f) = m.fns.iter().find(|f| f.name == "link_with_type" && f.self_ty.as_deref() == Some("ASN1Value")) else {
        ctx.fail_closed(rule, "anchor not found: ASN1Value::link_with_type");
        return;
    };
    let Some(mt) = model::matches_in(&f.block).into_iter().max_by_key(|mt| mt.arms.len()) else { return };
    let consts = const_resolver(m);
    let named = |n: &str, fields: Vec<(&str, Val)>| Val::Ctor(n.to_string(), vec![], fields.into_iter().map(|(k, v)| (k.to_string(), v)).collect::<Map<_, _>>());
    let arc = |name: Option<&str>, number: Option<i128>| named("ObjectIdentifierArc", vec![("name", name.map(|n| Val::some(Val::Str(n.into()))).unwrap_or(Val::none())), ("number", number.map(|n| Val::some(Val::int(n))).unwrap_or(Val::none()))]);
    let oid = Val::Ctor("ObjectIdentifier".into(), vec![Val::Ctor("ObjectIdentifierValue".into(), vec![Val::List(vec![arc(Some("x"), None), arc(None, Some(9))])], Map::new())], Map::new());
    for kind in ["Sequence", "Set", "SequenceOf", "SetOf"] {
        let key = format!("nested-oid-like-value:{}", kind);
        ctx.oblige(rule, &key, true);
        let relinked: std::cell::RefCell<Option<(String, String)>> = std::cell::RefCell::new(None);
        let hook = |_: &Evaluator, name: &str, a: &[Val]| -> Option<Result<Val, String>> {
            match name {
                ".link_with_type" => {
                    *relinked.borrow_mut() = Some((a.first().map(|v| v.show()).unwrap_or_default(), a.get(2).map(|v| v.show()).unwrap_or_default()));
                    Some(Ok(Val::Ctor("Ok".into(), vec![Val::Unit], Map::new())))
                }
                _ => None,
            }
        };
        let ev = Evaluator { consts: &consts, call_hook: &hook, inline: None };
        let ty = Val::Ctor(kind.into(), vec![Val::Opaque("payload".into())], Map::new());
        let value = named("LinkedNestedValue", vec![("supertypes", Val::List(vec![Val::Str("Inner".into())])), ("value", oid.clone())]);
        let mut env = Env::new();
        env.insert("self".into(), value.clone());
        env.insert("tlds".into(), Val::Opaque("tlds".into()));
        env.insert("ty".into(), ty.clone());
        env.insert("type_name".into(), Val::none());
        let r = ev.select_arm(&mt, &Val::Tuple(vec![ty.clone(), value]), &env).and_then(|(i, mut e2)| {
            ev.eval(&mt.arms[i].body, &mut e2)?;
            Ok(crate::rules::util::span_line(&mt.arms[i]))
        });
        let got: Option<(String, String)> = relinked.borrow().clone();
        match (r, got) {
            (Ok(_), Some((what, with))) if what.starts_with("ObjectIdentifier(") && with.starts_with(kind) => {}
            (Ok(line), other) => ctx.violate(rule, "nested-oid-like-value", &f.file, line,
                &format!("`d Inner DEFAULT {{ x 9 }}` with Inner ::= {}: the value arrives as LinkedNestedValue {{ [Inner], OBJECT IDENTIFIER-like {{ x 9 }} }} and the arm chosen for it {} — it stays an OBJECT IDENTIFIER value and is emitted as `Oid::new(..)`", kind.to_uppercase(), match other { None => "does not reinterpret the inner value".to_string(), Some((w, t)) => format!("links `{}` with `{}`", w.chars().take(40).collect::<String>(), t.chars().take(30).collect::<String>()) })),
            (Err(e), _) => ctx.fail_closed(rule, &format!("[{}]: {}", key, e)),
        }
    }
}

pub fn nesting(m: &Model, ctx: &mut Ctx, rule: &str) {
    use std::collections::BTreeMap as Map;
    let consts = const_resolver(m);
    let named = |n: &str, fields: Vec<(&str, Val)>| Val::Ctor(n.to_string(), vec![], fields.into_iter().map(|(k, v)| (k.to_string(), v)).collect::<Map<_, _>>());
    let nested = named("LinkedNestedValue", vec![("supertypes", Val::List(vec![Val::Str("Outer".into()), Val::Str("Mid".into()), Val::Str("Inner".into())])), ("value", Val::Ctor("Boolean".into(), vec![Val::Bool(true)], Map::new()))]);
    // (1) value_to_tokens: the wrapping order
    if let Some(f) = m.fns.iter().find(|f| f.name == "value_to_tokens" && f.self_ty.as_deref() == Some("Rasn")) {
        ctx.func(&f.key);
        if let Some(mt) = model::matches_in(&f.block).into_iter().max_by_key(|mt| mt.arms.len()) {
            let hook = |_: &Evaluator, name: &str, a: &[Val]| -> Option<Result<Val, String>> {
                match name {
                    ".to_rust_title_case" => match a.get(1) { Some(Val::Str(n)) => Some(Ok(Val::Sym(n.clone()))), _ => None },
                    ".value_to_tokens" => Some(Ok(Val::Ctor("Ok".into(), vec![Val::Sym("LIT".into())], Map::new()))),
                    ".clone" if a.len() == 1 => Some(Ok(a[0].clone())),
                    _ => None,
                }
            };
            let ev = Evaluator { consts: &consts, call_hook: &hook, inline: None };
            ctx.oblige(rule, "wrapping-order", true);
            let mut env = Env::new();
            env.insert("self".into(), Val::ctor("Rasn"));
            env.insert("type_name".into(), Val::none());
            let r = ev.select_arm(&mt, &nested, &env).and_then(|(i, mut e2)| ev.eval(&mt.arms[i].body, &mut e2));
            match r {
                Ok(Val::Ctor(ok, p, _)) if ok == "Ok" => {
                    let t = p.first().map(|v| v.show().replace(' ', "")).unwrap_or_default();
                    if t != "Outer(Mid(Inner(LIT)))" {
                        ctx.violate(rule, "wrapping-order", &f.file, crate::rules::util::span_line(&mt), &format!("a value reached through the references Outer -> Mid -> Inner is rendered `{}`, expected `Outer(Mid(Inner(LIT)))`: each reference is a delegate struct around the next", t));
                    }
                }
                Ok(o) => ctx.fail_closed(rule, &format!("[wrapping order]: {}", o.show())),
                Err(e) => ctx.fail_closed(rule, &format!("[wrapping order]: {}", e)),
            }
            // a SEQUENCE / SET value: the last reference names the struct itself, which is built with its `new` and not
            // wrapped; the references that lead to it are delegates around it
            let hook2 = |_: &Evaluator, name: &str, a: &[Val]| -> Option<Result<Val, String>> {
                match name {
                    ".to_rust_title_case" => match a.get(1) { Some(Val::Str(n)) => Some(Ok(Val::Sym(n.clone()))), _ => None },
                    ".value_to_tokens" => {
                        let ty = match a.get(2) { Some(Val::Ctor(s, p, _)) if s == "Some" => p.first().map(|v| v.show()).unwrap_or_default(), _ => "<no type name>".to_string() };
                        Some(Ok(Val::Ctor("Ok".into(), vec![Val::Sym(format!("{}::new(FIELDS)", ty))], Map::new())))
                    }
                    ".clone" | ".as_ref" if a.len() == 1 => Some(Ok(a[0].clone())),
                    _ => None,
                }
            };
            let ev2 = Evaluator { consts: &consts, call_hook: &hook2, inline: None };
            for (chain, outer_name, want) in [(vec!["Alias", "Inner"], "Alias", "Alias(Inner::new(FIELDS))"), (vec!["Inner"], "Inner", "Inner::new(FIELDS)")] {
                let key = format!("struct-value:{}", chain.join("->"));
                ctx.oblige(rule, &key, true);
                let v = named("LinkedNestedValue", vec![("supertypes", Val::List(chain.iter().map(|c| Val::Str(c.to_string())).collect())), ("value", Val::Ctor("LinkedStructLikeValue".into(), vec![Val::List(vec![])], Map::new()))]);
                let mut env = Env::new();
                env.insert("self".into(), Val::ctor("Rasn"));
                env.insert("type_name".into(), Val::some(Val::Sym(outer_name.into())));
                let r = ev2.select_arm(&mt, &v, &env).and_then(|(i, mut e2)| ev2.eval(&mt.arms[i].body, &mut e2)).map(|v| match v {
                    // an arm that leaves the function early
                    Val::Ctor(n, mut p, _) if n == "$return" => p.pop().unwrap_or(Val::Unit),
                    o => o,
                });
                match r {
                    Ok(Val::Ctor(ok, p, _)) if ok == "Ok" => {
                        let t = p.first().map(|v| v.show().replace(' ', "")).unwrap_or_default();
                        if t != want {
                            ctx.violate(rule, "struct-value-wrapped-in-itself", &f.file, crate::rules::util::span_line(&mt), &format!("a SEQUENCE value reached through the references {} (the last one is the SEQUENCE type itself) is rendered `{}`, expected `{}`: a struct is built by its `new`, only the references that lead to it are delegates — `b Inner DEFAULT {{ x 1 }}` is emitted as `Inner(Inner::new(..))`, which is not Rust that type-checks", chain.join(" -> "), t, want));
                        }
                    }
                    Ok(o) => ctx.fail_closed(rule, &format!("[{}]: {}", key, o.show())),
                    Err(e) => ctx.fail_closed(rule, &format!("[{}]: {}", key, e)),
                }
            }
        }
    } else {
        ctx.fail_closed(rule, "anchor not found: Rasn::value_to_tokens");
    }
    // (2) generate_value: the literal is typed by the innermost reference
    if let Some(f) = m.fns.iter().find(|f| f.name == "generate_value" && f.self_ty.as_deref() == Some("Rasn")) {
        ctx.func(&f.key);
        if let Some(mt) = model::matches_in(&f.block).into_iter().max_by_key(|mt| mt.arms.len()) {
            let seen = std::cell::RefCell::new(Vec::<String>::new());
            let hook = |_: &Evaluator, name: &str, a: &[Val]| -> Option<Result<Val, String>> {
                match name {
                    ".to_rust_title_case" => match a.get(1) { Some(Val::Str(n)) => Some(Ok(Val::Sym(n.clone()))), Some(o) => Some(Ok(Val::Sym(o.show()))), _ => None },
                    ".value_to_tokens" => {
                        seen.borrow_mut().push(a.get(2).map(|v| v.show()).unwrap_or_default());
                        Some(Ok(Val::Ctor("Ok".into(), vec![Val::Sym("LIT".into())], Map::new())))
                    }
                    ".is_const_type" => Some(Ok(Val::Bool(true))),
                    ".as_str" if a.len() == 1 => Some(Ok(Val::Str("Outer".into()))),
                    "call_template!" | "assignment!" => Some(Ok(Val::Ctor("Ok".into(), vec![Val::Sym("item".into())], Map::new()))),
                    _ => None,
                }
            };
            let ev = Evaluator { consts: &consts, call_hook: &hook, inline: None };
            ctx.oblige(rule, "innermost-types-the-literal", true);
            let mut env = Env::new();
            env.insert("self".into(), Val::ctor("Rasn"));
            env.insert("ty".into(), Val::Opaque("ty".into()));
            env.insert("tld".into(), named("ToplevelValueDefinition", vec![("value", nested.clone()), ("name", Val::Str("v".into()))]));
            let r = ev.select_arm(&mt, &nested, &env).and_then(|(i, mut e2)| {
                // only the statement that computes the parent name is of interest
                if let syn::Expr::Block(b) = &*mt.arms[i].body {
                    for st in &b.block.stmts {
                        if let syn::Stmt::Local(l) = st {
                            if let Some(init) = &l.init {
                                let v = ev.eval(&init.expr, &mut e2)?;
                                return Ok((tok(&l.pat), v));
                            }
                        }
                    }
                }
                Err("the arm for LinkedNestedValue has no leading let".to_string())
            });
            match r {
                Ok((_, v)) => {
                    let t = v.show();
                    if !t.contains("Inner") || t.contains("Outer") {
                        ctx.violate(rule, "innermost-types-the-literal", &f.file, crate::rules::util::span_line(&mt), &format!("for a value reached through Outer -> Mid -> Inner the literal is typed by `{}`; the innermost reference (Inner) names the type the literal belongs to (an enumeral is `Inner::x`)", t));
                    }
                }
                Err(e) => ctx.fail_closed(rule, &format!("[innermost type]: {}", e)),
            }
            // (3) an enumeral under a governing type that *refers* to the ENUMERATED type (`Alias ::= Col  v Alias ::= green`): the
            // constant is declared with the governing type and the enumeral is wrapped in it; under the ENUMERATED type itself
            // it is the bare enumeral of that type
            let hook3 = |_: &Evaluator, name: &str, a: &[Val]| -> Option<Result<Val, String>> {
                let text = |v: Option<&Val>| v.map(|v| match v { Val::Str(s) | Val::Sym(s) => s.clone(), o => o.show() }).unwrap_or_default();
                match name {
                    ".to_rust_title_case" | ".to_rust_enum_identifier" => Some(Ok(Val::Sym(text(a.get(1))))),
                    ".value_to_tokens" => Some(Ok(Val::Ctor("Ok".into(), vec![Val::Sym("Col::green".into())], Map::new()))),
                    ".is_const_type" => Some(Ok(Val::Bool(true))),
                    ".is_builtin_type" => Some(Ok(Val::Bool(false))),
                    ".as_str" if a.len() == 1 => match &a[0] { Val::Ctor(_, p, _) => match p.first() { Some(Val::Ctor(_, _, f)) => f.get("identifier").cloned().map(Ok), _ => None }, _ => None },
                    "assignment!" if a.len() == 3 => Some(Ok(Val::Sym(format!("{}({})", text(a.get(1)), text(a.get(2)))))),
                    "call_template!" if a.len() >= 5 => Some(Ok(Val::Ctor("Ok".into(), vec![Val::Sym(format!("const V: {} = {}", text(a.get(3)), if text(a.get(1)) == "enum_value_template" { format!("{}::{}", text(a.get(3)), text(a.get(4))) } else { text(a.get(4)) }))], Map::new()))),
                    _ => None,
                }
            };
            let ev3 = Evaluator { consts: &consts, call_hook: &hook3, inline: None };
            let enumeral = named("EnumeratedValue", vec![("enumerated", Val::Str("Col".into())), ("enumerable", Val::Str("green".into()))]);
            for (governor, want) in [("Col", "const V: Col = Col::green"), ("Alias", "const V: Alias = Alias(Col::green)")] {
                let key = format!("enumeral-under:{}", governor);
                ctx.oblige(rule, &key, true);
                let ty = Val::Ctor("ElsewhereDeclaredType".into(), vec![named("DeclarationElsewhere", vec![("identifier", Val::Str(governor.into())), ("module", Val::none()), ("parent", Val::none()), ("constraints", Val::List(vec![]))])], Map::new());
                let mut env = Env::new();
                env.insert("self".into(), Val::ctor("Rasn"));
                env.insert("ty".into(), ty.clone());
                env.insert("tld".into(), named("ToplevelValueDefinition", vec![("value", enumeral.clone()), ("name", Val::Str("v".into())), ("associated_type", ty)]));
                let r = ev3.select_arm(&mt, &enumeral, &env).and_then(|(i, mut e2)| ev3.eval(&mt.arms[i].body, &mut e2));
                match r {
                    Ok(Val::Ctor(ok, p, _)) if ok == "Ok" => {
                        let got = p.first().map(|v| match v { Val::Sym(s) | Val::Str(s) => s.clone(), o => o.show() }).unwrap_or_default();
                        if got.replace(' ', "") != want.replace(' ', "") {
                            ctx.violate(rule, "enumeral-under-alias", &f.file, crate::rules::util::span_line(&mt), &format!("`Col ::= ENUMERATED {{ red, green }}  Alias ::= Col  v {} ::= green` is declared `{}`; expected `{}` — the constant has the type it was assigned, and a reference to an ENUMERATED type is a delegate struct around it", governor, got, want));
                        }
                    }
                    Ok(o) => ctx.fail_closed(rule, &format!("[{}]: {}", key, o.show().chars().take(120).collect::<String>())),
                    Err(e) => ctx.fail_closed(rule, &format!("[{}]: {}", key, e)),
                }
            }
        }
    }
}

pub fn run(m: &Model, ctx: &mut Ctx) {
    ctx.explanation = "Only the table clauses of C07 are decided: \
C07.hex: hex_to_bools equals the 16-row table over exactly the alphabet the hstring lexer accepts (MSB first), and the bstring form maps '1' to true and every other accepted digit to false; the B/H decision follows the suffix letter. \
C07.bits: both octet<->bit converters are evaluated for all 256 octet values (MSB first; they work octet by octet), and the named-bit vector has length highest+1 with bit i set iff a listed name has value i. \
C07.oid: well_known() and the root detection in format_oid are evaluated over every (root, name) of X.660 Annex A and compared with ref/x660_arcs.json. \
C07.str: per CharacterStringType the value constructor names the same rasn type as string_type() (audited aliases); C07.quote: \"\" is unescaped to \" by one replace on the raw literal; booleans/NULL tokens. \
Not applicable (run-time values): resolution of references, nested CHOICE/SEQUENCE values, integers of any magnitude, named numbers.".into();
    ctx.assumptions = vec!["ref/x660_arcs.json transcribes X.660 Annex A".into(), "rasn's BitString is MSB-first (bitvec Msb0)".into()];
    ctx.rule("exhaustive evaluation of literal tables and tiny pure converters over their whole finite domain");
    let consts = const_resolver(m);
    let inl = inline_table(m, &["hex_to_bools", "is_bit_set", "octet_string_to_bit_string", "bit_string_to_octet_string", "bit_string_value_from_named_bits"]);
    let ev = Evaluator { consts: &consts, call_hook: &crate::eval::no_hook, inline: Some(&inl) };

    // ---------------- hex ----------------
    if let Some(f) = anchor_fn(m, ctx, "C07.hex", None, "hex_to_bools", Some("lexer")) {
        let lex = anchor_fn(m, ctx, "C07.hex", None, "bit_string_value", Some("lexer"));
        // accepted alphabet: the one_of("..") literal of the hstring/bstring lexer
        let mut alphabet = String::new();
        if let Some(lex) = lex {
            for c in model::calls_in(&lex.block) {
                if model::callee_name(&c).as_deref() == Some("one_of") {
                    if let Some(syn::Expr::Lit(l)) = c.args.first() {
                        if let syn::Lit::Str(s) = &l.lit {
                            if s.value().len() > alphabet.len() {
                                alphabet = s.value();
                            }
                        }
                    }
                }
            }
            ctx.oblige("C07.hex", "alphabet", true);
            let mut sorted: Vec<char> = alphabet.chars().collect();
            sorted.sort();
            if sorted.iter().collect::<String>() != "0123456789ABCDEF" {
                ctx.violate("C07.hex", "alphabet", &lex.file, lex.line, &format!("the bstring/hstring lexer accepts the digits {:?}; X.680 §12.10/12.12: 0-9 and A-F (upper case)", alphabet));
            }
            // B / H decision
            struct C {
                out: Vec<syn::ExprClosure>,
            }
            impl model::DeepCb for C {
                fn expr(&mut self, e: &syn::Expr) {
                    if let syn::Expr::Closure(c) = e {
                        if tok(&c.body).contains("hex_to_bools") {
                            self.out.push(c.clone());
                        }
                    }
                }
            }
            let mut c = C { out: vec![] };
            model::deep_walk_block(&lex.block, &mut c);
            if c.out.len() != 1 {
                ctx.fail_closed("C07.hex", "bit_string_value: literal-to-bits closure not found");
            } else {
                for (lit, enc, want) in [("10", 'B', vec![true, false]), ("", 'B', vec![]), ("0110", 'B', vec![false, true, true, false]), ("A5", 'H', vec![true, false, true, false, false, true, false, true]), ("0", 'H', vec![false; 4]), ("", 'H', vec![])] {
                    let key = format!("'{}'{}", lit, enc);
                    ctx.oblige("C07.hex", &key, true);
                    let arg = Val::Tuple(vec![Val::Str(lit.into()), Val::Char(enc)]);
                    match ev.apply_closure(&syn::Expr::Closure(c.out[0].clone()), &[arg], &Env::new()) {
                        Ok(Val::Ctor(n, p, _)) if n == "BitString" => {
                            let wantv = Val::List(want.iter().map(|b| Val::Bool(*b)).collect());
                            if p.first() != Some(&wantv) {
                                ctx.violate("C07.hex", &format!("literal:{}", enc), &lex.file, span_line(&c.out[0]), &format!("the literal {} denotes the bits {}, the lexer yields {}", key, wantv.show(), p.first().map(|v| v.show()).unwrap_or_default()));
                            }
                        }
                        Ok(o) => ctx.violate("C07.hex", &format!("literal:{}", enc), &lex.file, span_line(&c.out[0]), &format!("{} becomes {}", key, o.show())),
                        Err(e) => ctx.fail_closed("C07.hex", &format!("[{}]: {}", key, e)),
                    }
                }
            }
        }
        let p = f.sig.inputs.iter().filter_map(|a| match a { syn::FnArg::Typed(t) => Some(tok(&t.pat)), _ => None }).next().unwrap_or("c".into());
        for ch in "0123456789ABCDEF".chars() {
            ctx.oblige("C07.hex", &format!("digit:{}", ch), true);
            let mut env = Env::new();
            env.insert(p.clone(), Val::Char(ch));
            let d = ch.to_digit(16).unwrap();
            let want = Val::List((0..4).map(|i| Val::Bool(d & (8 >> i) != 0)).collect());
            match ev.eval_fn_body(&f.block, &mut env) {
                Ok(v) => {
                    if v != want {
                        ctx.violate("C07.hex", &format!("digit:{}", ch), &f.file, f.line, &format!("hex digit {} is {} (MSB first), hex_to_bools yields {}", ch, want.show(), v.show()));
                    }
                }
                Err(e) => ctx.fail_closed("C07.hex", &e),
            }
        }
    }

    // ---------------- bit <-> octet ----------------
    if let (Some(o2b), Some(b2o)) = (anchor_fn(m, ctx, "C07.bits", None, "octet_string_to_bit_string", None), anchor_fn(m, ctx, "C07.bits", None, "bit_string_to_octet_string", None)) {
        let p1 = o2b.sig.inputs.iter().filter_map(|a| match a { syn::FnArg::Typed(t) => Some(tok(&t.pat)), _ => None }).next().unwrap_or("bytes".into());
        let p2 = b2o.sig.inputs.iter().filter_map(|a| match a { syn::FnArg::Typed(t) => Some(tok(&t.pat)), _ => None }).next().unwrap_or("bits".into());
        let mut bad1 = None;
        let mut bad2 = None;
        for b in 0..=255u8 {
            let mut env = Env::new();
            env.insert(p1.clone(), Val::List(vec![Val::int(b as i128)]));
            match ev.eval_fn_body(&o2b.block, &mut env) {
                Ok(v) => {
                    if v != Val::List(bits_of(b)) && bad1.is_none() {
                        bad1 = Some(format!("octet 0x{:02X} -> {} (expected {})", b, v.show(), Val::List(bits_of(b)).show()));
                    }
                }
                Err(e) => {
                    ctx.fail_closed("C07.bits", &format!("octet_string_to_bit_string: {}", e));
                    break;
                }
            }
            let mut env = Env::new();
            env.insert(p2.clone(), Val::List(bits_of(b)));
            match ev.eval_fn_body(&b2o.block, &mut env) {
                Ok(Val::Ctor(n, p, _)) if n == "Ok" => {
                    let ok = matches!(p.first(), Some(Val::List(l)) if l.len() == 1 && matches!(&l[0], Val::Int { v, .. } if *v == b as i128));
                    if !ok && bad2.is_none() {
                        bad2 = Some(format!("bits of 0x{:02X} -> {}", b, p.first().map(|v| v.show()).unwrap_or_default()));
                    }
                }
                Ok(o) => {
                    if bad2.is_none() {
                        bad2 = Some(format!("bits of 0x{:02X} -> {}", b, o.show()));
                    }
                }
                Err(e) => {
                    ctx.fail_closed("C07.bits", &format!("bit_string_to_octet_string: {}", e));
                    break;
                }
            }
        }
        ctx.oblige_n("C07.bits/octet-values", 512);
        ctx.oblige("C07.bits", "octet->bits MSB first", true);
        ctx.oblige("C07.bits", "bits->octet MSB first", true);
        if let Some(b) = bad1 {
            ctx.violate("C07.bits", "octet->bits", &o2b.file, o2b.line, &format!("octet_string_to_bit_string is not MSB-first bit for bit: {}", b));
        }
        if let Some(b) = bad2 {
            ctx.violate("C07.bits", "bits->octet", &b2o.file, b2o.line, &format!("bit_string_to_octet_string is not the MSB-first inverse: {}", b));
        }
        // two octets: per-octet structure
        ctx.oblige("C07.bits", "two-octets", true);
        let mut env = Env::new();
        env.insert(p1.clone(), Val::List(vec![Val::int(0x80), Val::int(0x01)]));
        let want: Vec<Val> = bits_of(0x80).into_iter().chain(bits_of(0x01)).collect();
        match ev.eval_fn_body(&o2b.block, &mut env) {
            Ok(v) if v == Val::List(want.clone()) => {}
            Ok(v) => ctx.violate("C07.bits", "two-octets", &o2b.file, o2b.line, &format!("octets 80 01 -> {}", v.show())),
            Err(e) => ctx.fail_closed("C07.bits", &e),
        }
        // non multiple of 8 -> Err
        ctx.oblige("C07.bits", "partial-octet-is-an-error", true);
        let mut env = Env::new();
        env.insert(p2.clone(), Val::List(vec![Val::Bool(true); 9]));
        match ev.eval_fn_body(&b2o.block, &mut env) {
            Ok(Val::Ctor(n, _, _)) if n == "Err" => {}
            Ok(o) => ctx.violate("C07.bits", "partial-octet-is-an-error", &b2o.file, b2o.line, &format!("9 bits as OCTET STRING -> {} (must be an error, not silently padded or truncated)", o.show())),
            Err(e) => ctx.fail_closed("C07.bits", &e),
        }
    }
    // named bits
    if let Some(f) = anchor_fn(m, ctx, "C07.bits", None, "bit_string_value_from_named_bits", None) {
        let ps: Vec<String> = f.sig.inputs.iter().filter_map(|a| match a { syn::FnArg::Typed(t) => Some(tok(&t.pat)), _ => None }).collect();
        let dv = |n: &str, v: i128| {
            let mut f = BTreeMap::new();
            f.insert("name".to_string(), Val::Str(n.into()));
            f.insert("value".to_string(), Val::int(v));
            Val::Ctor("DistinguishedValue".into(), vec![], f)
        };
        let dist = Val::List(vec![dv("a", 0), dv("b", 2), dv("c", 5)]);
        for (named, highest, want) in [(vec!["b", "c"], 5, vec![false, false, true, false, false, true]), (vec![], 5, vec![false; 6]), (vec!["a"], 0, vec![true]), (vec!["a", "c"], 5, vec![true, false, false, false, false, true]), (vec!["c", "a"], 5, vec![true, false, false, false, false, true])] {
            let key = format!("{{{}}} highest={}", named.join(","), highest);
            ctx.oblige("C07.bits", &format!("named:{}", key), true);
            let mut env = Env::new();
            env.insert(ps[0].clone(), Val::int(highest));
            env.insert(ps[1].clone(), Val::List(named.iter().map(|n| Val::Str(n.to_string())).collect()));
            env.insert(ps[2].clone(), dist.clone());
            match ev.eval_fn_body(&f.block, &mut env) {
                Ok(v) => {
                    // the helper may return the bits or Ok(bits)
                    let v = match v { Val::Ctor(n, mut p, _) if n == "Ok" && p.len() == 1 => p.remove(0), o => o };
                    let w = Val::List(want.iter().map(|b| Val::Bool(*b)).collect());
                    if v != w {
                        ctx.violate("C07.bits", "named-bits", &f.file, f.line, &format!("named bits [{}] over a(0) b(2) c(5) denote {}, computed {}", key, w.show(), v.show()));
                    }
                }
                Err(e) => ctx.fail_closed("C07.bits", &format!("[{}]: {}", key, e)),
            }
        }
    }

    // every caller hands the helper the *highest* declared bit number (not the last declared, not the count)
    {
        let dv = |n: &str, v: i128| {
            let mut f = BTreeMap::new();
            f.insert("name".to_string(), Val::Str(n.into()));
            f.insert("value".to_string(), Val::int(v));
            Val::Ctor("DistinguishedValue".into(), vec![], f)
        };
        let mut sites = 0;
        for f in m.fns.iter().filter(|f| f.krate == "rasn-compiler" && !f.module.contains("tests") && f.name != "bit_string_value_from_named_bits") {
            let calls: Vec<syn::ExprCall> = model::calls_in(&f.block).into_iter().filter(|c| model::callee_name(c).as_deref() == Some("bit_string_value_from_named_bits")).collect();
            if calls.is_empty() {
                continue;
            }
            // (pattern, initialiser) pairs of every `let` / `if let` of the fn, tuples taken apart
            struct L {
                out: Vec<(syn::Pat, syn::Expr)>,
            }
            impl L {
                fn add(&mut self, p: &syn::Pat, e: &syn::Expr) {
                    match (p, e) {
                        (syn::Pat::Tuple(pt), syn::Expr::Tuple(et)) if pt.elems.len() == et.elems.len() => {
                            for (a, b) in pt.elems.iter().zip(et.elems.iter()) {
                                self.add(a, b);
                            }
                        }
                        _ => self.out.push((p.clone(), e.clone())),
                    }
                }
            }
            impl model::DeepCb for L {
                fn expr(&mut self, e: &syn::Expr) {
                    if let syn::Expr::Let(l) = e {
                        self.add(&l.pat, &l.expr);
                    }
                }
                fn local(&mut self, l: &syn::Local) {
                    if let Some(init) = &l.init {
                        self.add(&l.pat, &init.expr);
                    }
                }
            }
            let mut l = L { out: vec![] };
            model::deep_walk_block(&f.block, &mut l);
            for c in calls {
                sites += 1;
                let (Some(a0), Some(a2)) = (c.args.first(), c.args.iter().nth(2)) else {
                    ctx.fail_closed("C07.bits", &format!("{}: call of bit_string_value_from_named_bits with fewer than 3 arguments", f.name));
                    continue;
                };
                let key = format!("highest-bit-argument:{}:{}", f.name, model::line_of(syn::spanned::Spanned::span(&c)));
                ctx.oblige("C07.bits", &format!("highest-bit-argument:{}", f.name), true);
                let a0t = tok(a0).trim_start_matches('*').to_string();
                let list_name = tok(a2).trim_start_matches('&').to_string();
                // nearest binding `Some(<a0>)` / `<a0>` before the call
                let call_line = model::line_of(syn::spanned::Spanned::span(&c));
                let src = l.out.iter().filter(|(p, _)| {
                    let pt = tok(p);
                    (pt == a0t || pt == format!("Some({})", a0t)) && model::line_of(syn::spanned::Spanned::span(p)) <= call_line
                }).last();
                let Some((pat, init)) = src else {
                    ctx.fail_closed("C07.bits", &format!("[{}]: the binding of `{}` was not found", key, a0t));
                    continue;
                };
                let wrapped = tok(pat).starts_with("Some(");
                for (what, vals) in [("ascending", vec![0i128, 2, 5]), ("highest declared first", vec![7, 0, 1]), ("highest in the middle", vec![1, 9, 3]), ("one bit", vec![4])] {
                    let mut env = Env::new();
                    env.insert(list_name.clone(), Val::List(vals.iter().enumerate().map(|(i, v)| dv(&format!("n{}", i), *v)).collect()));
                    let want = *vals.iter().max().unwrap();
                    let got = ev.eval(init, &mut env);
                    let ok = match (&got, wrapped) {
                        (Ok(Val::Ctor(s, p, _)), true) if s == "Some" => matches!(p.first(), Some(Val::Int { v, .. }) if *v == want),
                        (Ok(Val::Int { v, .. }), false) => *v == want,
                        _ => false,
                    };
                    match got {
                        Err(e) => ctx.fail_closed("C07.bits", &format!("[{} {}]: `{}`: {}", key, what, tok(init), e)),
                        Ok(g) => {
                            if !ok {
                                ctx.violate("C07.bits", &format!("highest-bit-argument:{}", f.name), &f.file, call_line,
                                    &format!("`{}` sizes a named-bit list value with `{}` = {} for bits declared as {:?} ({}); the vector needs the highest declared bit number {} + 1 entries, listed bits above it are dropped", f.name, tok(init), g.show(), vals, what, want));
                                break;
                            }
                        }
                    }
                }
            }
        }
        ctx.floor("C07.bits/named-bit-callers", sites, 2);
    }

    default_traversal(m, ctx);
    crate::rules::c06::named_first(m, ctx, "C07.named");
    named_lookup(m, ctx, "C07.named");
    enumeral_lookup(m, ctx, "C07.named");
    inline_named_number(m, ctx, "C07.named");
    value_reference(m, ctx, "C07.ref");
    nested_choice_value(m, ctx, "C07.nest");
    nested_choice_ident(m, ctx, "C07.nest");
    guard_contradictions(m, ctx, "C07.guard");
    octets_through_reference(m, ctx, "C07.hex");
    implicit_defaults(m, ctx, "C07.struct", true);
    cstring_end(m, ctx, "C07.cstring");
    single_element_list(m, ctx, "C07.list");
    nesting(m, ctx, "C07.nest");
    nested_struct_like(m, ctx, "C07.list");
    // "integers of any magnitude and sign": the literal written for a linked integer value is decided under C06.literal
    borrow(ctx, "C06", "C06.literal", "C07.literal", &mut |sub| crate::rules::c06::run(m, sub));
    oid(m, ctx, &ev);
    oid_whole(m, ctx);
    strings(m, ctx, &ev);
}

/// C07.struct (implicit components): the value a SEQUENCE value takes for a component it leaves out is the component's
/// DEFAULT *as a linked value*. The DEFAULT is copied from the governing type as the map of definitions holds it — linked
/// already or still as the lexer left it, depending on which of the two definitions is linked first (i.e. on their names).
/// link_struct_like is evaluated whole (link_with_type followed through the crate's code) on `{ a 1 }` under
/// `SEQUENCE { a INTEGER, b Num DEFAULT two }` with the DEFAULT raw, and with the DEFAULT in each linked form: the implicit
/// value is the named number's value under its type in every case — never a bare reference (rendered as a constant `TWO`
/// nobody declares), and a DEFAULT that is linked already is taken over unchanged (not wrapped a second time).
pub fn implicit_defaults(m: &Model, ctx: &mut Ctx, rule: &str, written_and_optional: bool) {
    use std::collections::BTreeMap as Map;
    let Some(f) = m.fns.iter().find(|f| f.name == "link_struct_like" && f.self_ty.as_deref() == Some("ASN1Value")) else {
        ctx.fail_closed(rule, "anchor not found: ASN1Value::link_struct_like");
        return;
    };
    let consts = const_resolver(m);
    let named = |n: &str, fields: Vec<(&str, Val)>| Val::Ctor(n.to_string(), vec![], fields.into_iter().map(|(k, v)| (k.to_string(), v)).collect::<Map<_, _>>());
    let dv = |n: &str, v: i128| named("DistinguishedValue", vec![("name", Val::Str(n.into())), ("value", Val::int(v))]);
    let num_ty = Val::Ctor("Integer".into(), vec![named("Integer", vec![("distinguished_values", Val::some(Val::List(vec![dv("one", 1), dv("two", 2)]))), ("constraints", Val::List(vec![]))])], Map::new());
    let int_ty = Val::Ctor("Integer".into(), vec![named("Integer", vec![("distinguished_values", Val::none()), ("constraints", Val::List(vec![]))])], Map::new());
    let members = Val::List(["red", "green"].iter().enumerate().map(|(i, m)| named("Enumeral", vec![("name", Val::Str(m.to_string())), ("index", Val::int(i as i128)), ("description", Val::none())])).collect());
    let col_ty = Val::Ctor("Enumerated".into(), vec![named("Enumerated", vec![("members", members), ("extensible", Val::none()), ("constraints", Val::List(vec![]))])], Map::new());
    let type_tld = |n: &str, ty: Val| Val::Ctor("Type".into(), vec![named("ToplevelTypeDefinition", vec![("name", Val::Str(n.into())), ("ty", ty), ("parameterization", Val::none())])], Map::new());
    let defs: Vec<(&str, Val)> = vec![("Num", type_tld("Num", num_ty)), ("Col", type_tld("Col", col_ty))];
    let tref = |n: &str| Val::Ctor("ElsewhereDeclaredType".into(), vec![named("DeclarationElsewhere", vec![("identifier", Val::Str(n.into())), ("parent", Val::none()), ("module", Val::none()), ("constraints", Val::List(vec![]))])], Map::new());
    let depth = std::cell::Cell::new(0usize);
    let hook = |_: &Evaluator, name: &str, a: &[Val]| -> Option<Result<Val, String>> {
        match (name, a.first()) {
            (".iter", Some(Val::Opaque(s))) if s == "tlds" => Some(Ok(Val::List(defs.iter().map(|(n, t)| Val::Tuple(vec![Val::Str(n.to_string()), t.clone()])).collect()))),
            (".values", Some(Val::Opaque(s))) if s == "tlds" => Some(Ok(Val::List(defs.iter().map(|(_, t)| t.clone()).collect()))),
            (".get", Some(Val::Opaque(s))) if s == "tlds" => match a.get(1) {
                Some(Val::Str(k)) => Some(Ok(defs.iter().find(|(n, _)| n == k).map(|(_, v)| Val::some(v.clone())).unwrap_or(Val::none()))),
                _ => Some(Err("tlds.get with a key that is not a name".into())),
            },
            (".link_with_type", _) | ("Self::link_enum_or_distinguished", _) | ("ASN1Value::link_enum_or_distinguished", _) => {
                depth.set(depth.get() + 1);
                if depth.get() > 24 { Some(Err("link_with_type does not return".into())) } else { None }
            }
            (".int_type", _) => Some(Ok(Val::Sym("INT".into()))),
            (".is_const_type", _) => Some(Ok(Val::Bool(false))),
            (".borrow_mut", Some(v)) | (".borrow", Some(v)) if a.len() == 1 && matches!(v, Val::Ctor(..)) => Some(Ok(v.clone())),
            (".as_str", Some(Val::Ctor(n, p, _))) if n == "ElsewhereDeclaredType" => Some(Ok(p.first().and_then(|d| match d { Val::Ctor(_, _, f) => f.get("identifier").cloned(), _ => None }).unwrap_or(Val::Str("?".into())))),
            (".as_str", Some(Val::Ctor(n, _, _))) if n == "Integer" => Some(Ok(Val::Str("INTEGER".into()))),
            (".is_builtin_type", Some(Val::Ctor(n, _, _))) => Some(Ok(Val::Bool(n != "ElsewhereDeclaredType"))),
            (".into_owned", Some(v)) if a.len() == 1 => Some(Ok(v.clone())),
            ("grammar_error!", _) => Some(Ok(Val::Sym("GrammarError".into()))),
            _ => None,
        }
    };
    let mut inl = inline_all(m, &["ASN1Value", "ToplevelDefinition"]);
    for ty in ["Optionality"] {
        for g in m.fns.iter().filter(|g| g.self_ty.as_deref() == Some(ty) && g.trait_.is_none()) {
            let ps: Vec<String> = g.sig.inputs.iter().filter_map(|a| match a { syn::FnArg::Typed(t) => Some(tok(&t.pat)), _ => None }).collect();
            inl.insert(format!(".{}", g.name), (ps, g.block.clone()));
        }
    }
    let ev = Evaluator { consts: &consts, call_hook: &hook, inline: Some(&inl) };
    let params: Vec<String> = f.sig.inputs.iter().filter_map(|a| match a { syn::FnArg::Typed(t) => Some(tok(&t.pat).replace("mut ", "")), _ => None }).collect();
    let member = |n: &str, ty: Val, opt: Val| named("SequenceOrSetMember", vec![("name", Val::Str(n.into())), ("tag", Val::none()), ("ty", ty), ("optionality", opt), ("is_recursive", Val::Bool(false)), ("constraints", Val::List(vec![]))]);
    let raw = |id: &str| named("ElsewhereDeclaredValue", vec![("identifier", Val::Str(id.into())), ("parent", Val::none()), ("module", Val::none())]);
    let linked_int = Val::Ctor("LinkedNestedValue".into(), vec![], [("supertypes".to_string(), Val::List(vec![Val::Str("Num".into())])), ("value".to_string(), named("LinkedIntValue", vec![("integer_type", Val::Sym("INT".into())), ("value", Val::int(2))]))].into_iter().collect());
    let linked_enum = named("EnumeratedValue", vec![("enumerated", Val::Str("Col".into())), ("enumerable", Val::Str("green".into()))]);
    let linked_ref = named("LinkedElsewhereDefinedValue", vec![("parent", Val::none()), ("identifier", Val::Str("standard".into())), ("can_be_const", Val::Bool(true))]);
    let scenarios: Vec<(&str, &str, Val, Option<Val>)> = vec![
        ("raw named number (`b Num DEFAULT two`, Num linked later)", "Num", raw("two"), None),
        ("raw enumeral (`b Col DEFAULT green`, Col linked later)", "Col", raw("green"), None),
        ("linked named number (Num linked before)", "Num", linked_int.clone(), Some(linked_int)),
        ("linked enumeral (Col linked before)", "Col", linked_enum.clone(), Some(linked_enum)),
        ("linked value reference (`b Num DEFAULT standard`, standard Num ::= 2, Num linked before)", "Num", linked_ref.clone(), Some(linked_ref)),
    ];
    // (written?, DEFAULT? / OPTIONAL / mandatory): the written value wins, the DEFAULT is taken only when nothing is written, a
    // mandatory component that is left out is an error; an OPTIONAL component must stay distinguishable from a mandatory one
    // (the field is an Option<T>) and may be left out
    let nine = Val::Ctor("Integer".into(), vec![Val::int(9)], Map::new());
    let three = Val::Ctor("Integer".into(), vec![Val::int(3)], Map::new());
    for (written, opt_label, opt) in if !written_and_optional { vec![] } else { vec![
        (true, "DEFAULT", Val::Ctor("Default".into(), vec![three.clone()], Map::new())), (false, "DEFAULT", Val::Ctor("Default".into(), vec![three.clone()], Map::new())),
        (true, "mandatory", Val::ctor("Required")), (false, "mandatory", Val::ctor("Required")),
        (true, "OPTIONAL", Val::ctor("Optional")), (false, "OPTIONAL", Val::ctor("Optional")),
    ] } {
        let key = format!("component written={} {}", written, opt_label);
        ctx.oblige(rule, &key, true);
        depth.set(0);
        let s = named("SequenceOrSet", vec![("components_of", Val::List(vec![])), ("extensible", Val::none()), ("constraints", Val::List(vec![])),
            ("members", Val::List(vec![member("a", int_ty.clone(), Val::ctor("Required")), member("x", int_ty.clone(), opt)]))]);
        let mut list = vec![Val::Tuple(vec![Val::some(Val::Str("a".into())), Val::Ctor("Integer".into(), vec![Val::int(1)], Map::new())])];
        if written {
            list.push(Val::Tuple(vec![Val::some(Val::Str("x".into())), nine.clone()]));
        }
        let mut env = Env::new();
        env.insert(params.first().cloned().unwrap_or("val".into()), Val::List(list));
        env.insert(params.get(1).cloned().unwrap_or("s".into()), s);
        env.insert(params.get(2).cloned().unwrap_or("tlds".into()), Val::Opaque("tlds".into()));
        env.insert(params.get(3).cloned().unwrap_or("type_name".into()), Val::some(Val::Str("Inner".into())));
        let got: Result<String, String> = match ev.eval_fn_body(&f.block, &mut env) {
            Ok(Val::Ctor(ok, p, _)) if ok == "Ok" => {
                let fields = match p.first() { Some(Val::Ctor(n, q, _)) if n == "LinkedStructLikeValue" => match q.first() { Some(Val::List(l)) => l.clone(), _ => vec![] }, _ => vec![] };
                let of = |n: &str| fields.iter().find_map(|t| match t { Val::Tuple(t) if t.len() == 3 && t[0] == Val::Str(n.into()) => Some(t[2].clone()), _ => None });
                // the shape of the mandatory component a is the reference for "looks like a mandatory one"
                let shape = |v: &Val| match v { Val::Ctor(k, q, _) => format!("{}({})", k, q.first().map(|x| x.show().replace(['1', '3', '9'], "N")).unwrap_or_default()), o => o.show() };
                match (of("x"), of("a")) {
                    (Some(x), Some(a)) => {
                        let num = if x.show().contains('9') { "9" } else if x.show().contains('3') { "3" } else { "?" };
                        Ok(format!("{}|{}|{}", match &x { Val::Ctor(k, _, _) => k.clone(), o => o.show() }, num, if shape(&x) == shape(&a) { "like-mandatory" } else { "marked" }))
                    }
                    (None, _) => Ok("absent".into()),
                    _ => Err("component a is missing from the linked value".into()),
                }
            }
            Ok(Val::Ctor(e, _, _)) if e == "Err" => Ok("<error>".into()),
            Ok(o) => Err(o.show().chars().take(120).collect()),
            Err(e) => Err(e),
        };
        match got {
            Err(e) => ctx.fail_closed(rule, &format!("[{}]: {}", key, e)),
            Ok(g) => match (written, opt_label) {
                (true, "DEFAULT") | (true, "mandatory") => if !g.starts_with("Explicit|9") {
                    ctx.violate(rule, &format!("component-value:written=true,default={}", opt_label == "DEFAULT"), &f.file, f.line, &format!("a SEQUENCE value in which the {} component x is written (x 9): x gets `{}`, expected the written value", opt_label, g));
                },
                (false, "DEFAULT") => if !g.starts_with("Implicit|3") {
                    ctx.violate(rule, "component-value:written=false,default=true", &f.file, f.line, &format!("a SEQUENCE value that leaves out x (DEFAULT 3): x gets `{}`, expected the DEFAULT", g));
                },
                (false, "mandatory") => if g != "<error>" {
                    ctx.violate(rule, "component-value:written=false,default=false", &f.file, f.line, &format!("a SEQUENCE value that leaves out the mandatory component x is accepted: x gets `{}`", g));
                },
                (true, _) => if g == "Explicit|9|like-mandatory" {
                    ctx.violate(rule, "optional-component:presence-lost", &f.file, f.line,
                        "a SEQUENCE value that gives the OPTIONAL component x: x is linked exactly like a mandatory component — the generator cannot know that the field is an Option<T> and renders `Seq::new(.., true, ..)` for `b: Option<bool>` (`s Seq ::= { a 5, b TRUE }` does not type-check, no warning)");
                } else if !g.contains("|9|") {
                    ctx.violate(rule, "optional-component:written-value-lost", &f.file, f.line, &format!("a SEQUENCE value that gives the OPTIONAL component x (x 9): x gets `{}`", g));
                },
                (false, _) => if g == "<error>" {
                    ctx.violate(rule, "optional-component:omission-is-an-error", &f.file, f.line,
                        "a SEQUENCE value that leaves the OPTIONAL component x out is answered with an error (`No value for field x found!`): `s Seq ::= { a 5 }` is a valid value (x absent) and yields a warning and no binding");
                },
            },
        }
    }
    for (label, tyname, default, unchanged) in scenarios {
        let key = format!("implicit-default:{}", label.split(' ').take(3).collect::<Vec<_>>().join("-").trim_end_matches(&['(', '`'][..]).to_string());
        ctx.oblige(rule, &key, true);
        depth.set(0);
        let s = named("SequenceOrSet", vec![("components_of", Val::List(vec![])), ("extensible", Val::none()), ("constraints", Val::List(vec![])),
            ("members", Val::List(vec![member("a", int_ty.clone(), Val::ctor("Required")), member("b", tref(tyname), Val::Ctor("Default".into(), vec![default.clone()], Map::new()))]))]);
        let mut env = Env::new();
        env.insert(params.first().cloned().unwrap_or("val".into()), Val::List(vec![Val::Tuple(vec![Val::some(Val::Str("a".into())), Val::Ctor("Integer".into(), vec![Val::int(1)], Map::new())])]));
        env.insert(params.get(1).cloned().unwrap_or("s".into()), s);
        env.insert(params.get(2).cloned().unwrap_or("tlds".into()), Val::Opaque("tlds".into()));
        env.insert(params.get(3).cloned().unwrap_or("type_name".into()), Val::some(Val::Str("Inner".into())));
        match ev.eval_fn_body(&f.block, &mut env) {
            Ok(Val::Ctor(ok, p, _)) if ok == "Ok" => {
                let fields = match p.first() { Some(Val::Ctor(n, q, _)) if n == "LinkedStructLikeValue" => match q.first() { Some(Val::List(l)) => l.clone(), _ => vec![] }, _ => vec![] };
                let b = fields.iter().find_map(|t| match t { Val::Tuple(t) if t.len() == 3 && t[0] == Val::Str("b".into()) => Some(t[2].clone()), _ => None });
                match b {
                    Some(Val::Ctor(k, q, _)) if k == "Implicit" => {
                        let v = q.first().cloned().unwrap_or(Val::Unit);
                        let sh = v.show();
                        if std::env::var("ASNLINT_DEBUG").is_ok() { eprintln!("[{}] {} depth={}", label, sh, depth.get()); }
                        if sh.contains("ElsewhereDeclaredValue") {
                            ctx.violate(rule, "implicit-default:bare-reference", &f.file, f.line,
                                &format!("`{{ a 1 }}` under `SEQUENCE {{ a INTEGER, b {} DEFAULT .. }}`, {}: the omitted component gets `{}` — the DEFAULT exactly as the lexer left it; the generators render a bare reference as a constant (`TWO`, `GREEN`) nobody declares. Whether the DEFAULT is linked by then depends on the order in which the two definitions are linked, i.e. on their names", tyname, label, sh.chars().take(110).collect::<String>()));
                        } else if let Some(u) = &unchanged {
                            if &v != u {
                                ctx.violate(rule, "implicit-default:linked-twice", &f.file, f.line,
                                    &format!("`{{ a 1 }}` under `SEQUENCE {{ a INTEGER, b {} DEFAULT .. }}`, {}: the DEFAULT is linked already and becomes `{}` — linked a second time (`Col(Col::green)`)", tyname, label, sh.chars().take(140).collect::<String>()));
                            }
                        }
                    }
                    o => ctx.violate(rule, "implicit-default:missing", &f.file, f.line, &format!("`{{ a 1 }}` under `SEQUENCE {{ a INTEGER, b {} DEFAULT .. }}`: component b of the linked value is {:?}, expected its DEFAULT", tyname, o.map(|x| x.show()))),
                }
            }
            Ok(Val::Ctor(e, _, _)) if e == "Err" => ctx.violate(rule, "implicit-default:refused", &f.file, f.line, &format!("`{{ a 1 }}` under `SEQUENCE {{ a INTEGER, b {} DEFAULT .. }}`, {}: the value is refused although b has a DEFAULT", tyname, label)),
            Ok(o) => ctx.fail_closed(rule, &format!("[{}]: {}", key, o.show().chars().take(120).collect::<String>())),
            Err(e) => ctx.fail_closed(rule, &format!("[{}]: {}", key, e)),
        }
    }
}

fn oid(m: &Model, ctx: &mut Ctx, ev: &Evaluator) {
    let reference: Value = match std::fs::read_to_string(ctx.verif.join("ref/x660_arcs.json")).ok().and_then(|s| serde_json::from_str(&s).ok()) {
        Some(v) => v,
        None => {
            ctx.fail_closed("C07.oid", "ref/x660_arcs.json missing");
            return;
        }
    };
    let Some(f) = anchor_fn(m, ctx, "C07.oid", Some("ObjectIdentifierArc"), "well_known", None) else { return };
    let ps: Vec<String> = f.sig.inputs.iter().filter_map(|a| match a { syn::FnArg::Typed(t) => Some(tok(&t.pat)), _ => None }).collect();
    let mut names: Vec<String> = vec![];
    for (k, _) in reference["top"].as_object().unwrap() {
        names.push(k.clone());
    }
    for (_, t) in reference["under"].as_object().unwrap() {
        for (k, _) in t.as_object().unwrap() {
            if !names.contains(k) {
                names.push(k.clone());
            }
        }
    }
    names.push("some-local-value".into());
    for root in [None, Some(0i128), Some(1), Some(2)] {
        for n in &names {
            let key = format!("root={:?} name={}", root, n);
            ctx.oblige("C07.oid", &key, true);
            let want: Option<i64> = reference["top"].get(n).and_then(|v| v.as_i64()).or_else(|| root.and_then(|r| reference["under"].get(r.to_string()).and_then(|t| t.get(n)).and_then(|v| v.as_i64())));
            let mut env = Env::new();
            env.insert(ps[0].clone(), Val::some(Val::Str(n.clone())));
            env.insert(ps[1].clone(), root.map(|r| Val::some(Val::int(r))).unwrap_or(Val::none()));
            match ev.eval_fn_body(&f.block, &mut env) {
                Ok(v) => {
                    let got = match &v {
                        Val::Ctor(c, p, _) if c == "Some" => match p.first() { Some(Val::Int { v, .. }) => Some(*v as i64), _ => None },
                        _ => None,
                    };
                    if got != want {
                        ctx.violate("C07.oid", &format!("arc:{}:{}", root.map(|r| r.to_string()).unwrap_or("any".into()), n), &f.file, f.line,
                            &format!("OID arc name `{}` ({}) resolves to {:?}; X.660 Annex A: {:?}", n, match root { None => "first arc".to_string(), Some(r) => format!("below root {}", r) }, got, want));
                    }
                }
                Err(e) => ctx.fail_closed("C07.oid", &format!("[{}]: {}", key, e)),
            }
        }
    }
    // root detection
    if let Some(g) = anchor_fn(m, ctx, "C07.oid", Some("Rasn"), "format_oid", None) {
        let mt = model::matches_in(&g.block).into_iter().find(|mt| tok(&mt.expr).contains(".first()"));
        match mt {
            None => ctx.fail_closed("C07.oid", "format_oid: root detection match not found"),
            Some(mt) => {
                let arc = |name: Option<&str>, number: Option<i128>| {
                    let mut f = BTreeMap::new();
                    f.insert("name".to_string(), name.map(|n| Val::some(Val::Str(n.into()))).unwrap_or(Val::none()));
                    f.insert("number".to_string(), number.map(|n| Val::some(Val::int(n))).unwrap_or(Val::none()));
                    Val::some(Val::Ctor("ObjectIdentifierArc".into(), vec![], f))
                };
                for (name, number, want) in [(Some("itu-t"), None, Some(0)), (Some("ccitt"), None, Some(0)), (Some("iso"), None, Some(1)), (None, Some(0), Some(0)), (None, Some(1), Some(1)), (None, Some(2), None), (Some("itu-t"), Some(0), Some(0)), (Some("iso"), Some(1), Some(1)), (Some("my-root"), None, None)] {
                    let key = format!("first arc {:?}/{:?}", name, number);
                    ctx.oblige("C07.oid", &format!("root:{}", key), true);
                    match ev.select_arm(&mt, &arc(name, number), &Env::new()) {
                        Ok((i, mut e2)) => {
                            let got = match ev.eval(&mt.arms[i].body, &mut e2) {
                                Ok(Val::Ctor(c, p, _)) if c == "Some" => match p.first() { Some(Val::Int { v, .. }) => Some(*v as i32), _ => Some(-1) },
                                Ok(Val::Ctor(c, _, _)) if c == "None" => None,
                                _ => Some(-1),
                            };
                            if got != want {
                                ctx.violate("C07.oid", &format!("root:{}", name.unwrap_or("number")), &g.file, span_line(&mt),
                                    &format!("format_oid takes the root of an OID starting with {} to be {:?}, X.660: {:?} — the names of the second arc are looked up under the wrong (or no) root", key, got, want));
                            }
                        }
                        Err(e) => ctx.fail_closed("C07.oid", &format!("[{}]: {}", key, e)),
                    }
                }
            }
        }
    }
}

/// format_oid evaluated whole on OBJECT IDENTIFIER values written with the names X.660 Annex A assigns *positionally*:
/// the series letters a(1)..z(26) exist only as the third arc below {itu-t(0) recommendation(0)}. What the function
/// makes of each arc (a number, or a reference to a value of that name) is read off the produced tokens.
fn oid_whole(m: &Model, ctx: &mut Ctx) {
    let Some(g) = anchor_fn(m, ctx, "C07.oid", Some("Rasn"), "format_oid", None) else { return };
    let consts = const_resolver(m);
    let hook = |_: &Evaluator, name: &str, a: &[Val]| -> Option<Result<Val, String>> {
        match (name, a.first(), a.get(1)) {
            (".to_rust_const_case", _, Some(Val::Str(n))) => Some(Ok(Val::Sym(format!("<ref:{}>", n)))),
            ("u32::try_from", Some(Val::Int { v, .. }), _) => Some(Ok(if *v >= 0 && *v <= u32::MAX as i128 { Val::Ctor("Ok".into(), vec![Val::int(*v)], BTreeMap::new()) } else { Val::Ctor("Err".into(), vec![Val::Unit], BTreeMap::new()) })),
            (".to_token_stream", Some(Val::Int { v, .. }), _) => Some(Ok(Val::Sym(format!("{}u32", v)))),
            _ => None,
        }
    };
    let mut inl = inline_all(m, &["ObjectIdentifierArc"]);
    inl.retain(|k, _| !k.contains("to_rust_const_case"));
    let ev = Evaluator { consts: &consts, call_hook: &hook, inline: Some(&inl) };
    let param = g.sig.inputs.iter().filter_map(|a| match a { syn::FnArg::Typed(t) => Some(tok(&t.pat)), _ => None }).next().unwrap_or("oid".into());
    let arc = |a: &(Option<&str>, Option<i128>)| {
        let mut f = BTreeMap::new();
        f.insert("name".to_string(), a.0.map(|n| Val::some(Val::Str(n.into()))).unwrap_or(Val::none()));
        f.insert("number".to_string(), a.1.map(|n| Val::some(Val::int(n))).unwrap_or(Val::none()));
        Val::Ctor("ObjectIdentifierArc".into(), vec![], f)
    };
    // (label, arcs, expected: number or the name left as a value reference)
    #[derive(Debug, PartialEq, Clone)]
    enum A { N(i128), R(&'static str) }
    let n = |s: &'static str| (Some(s), None);
    let num = |v: i128| (None, Some(v));
    let scenarios: Vec<(&str, Vec<(Option<&'static str>, Option<i128>)>, Vec<A>)> = vec![
        ("series-letter:names", vec![n("itu-t"), n("recommendation"), n("q"), num(755)], vec![A::N(0), A::N(0), A::N(17), A::N(755)]),
        ("series-letter:name-and-number", vec![(Some("itu-t"), Some(0)), (Some("recommendation"), Some(0)), n("h"), num(245)], vec![A::N(0), A::N(0), A::N(8), A::N(245)]),
        ("series-letter:numbers", vec![num(0), num(0), n("z"), num(1)], vec![A::N(0), A::N(0), A::N(26), A::N(1)]),
        ("series-letter:first", vec![n("ccitt"), n("recommendation"), n("a")], vec![A::N(0), A::N(0), A::N(1)]),
        ("letter-elsewhere:question", vec![n("itu-t"), n("question"), n("q"), num(1)], vec![A::N(0), A::N(1), A::R("q"), A::N(1)]),
        ("letter-elsewhere:iso", vec![n("iso"), n("standard"), n("q"), num(1)], vec![A::N(1), A::N(0), A::R("q"), A::N(1)]),
        ("letter-elsewhere:fourth-arc", vec![n("itu-t"), n("recommendation"), num(17), n("q")], vec![A::N(0), A::N(0), A::N(17), A::R("q")]),
        ("letter-elsewhere:long-name", vec![n("itu-t"), n("recommendation"), n("qq")], vec![A::N(0), A::N(0), A::R("qq")]),
        ("reference-first", vec![n("ds"), num(9)], vec![A::R("ds"), A::N(9)]),
        // name(number) form: the written number is the arc; a well-known name is only consulted for a bare name
        ("arc-form:name-and-number:well-known", vec![n("iso"), (Some("standard"), Some(7)), num(1)], vec![A::N(1), A::N(7), A::N(1)]),
        ("arc-form:name-and-number:zero", vec![(Some("iso"), Some(1)), (Some("member-body"), Some(0))], vec![A::N(1), A::N(0)]),
        ("arc-form:name-and-number:unknown", vec![n("iso"), (Some("acme"), Some(99999))], vec![A::N(1), A::N(99999)]),
        ("arc-form:bare-name:well-known", vec![n("iso"), n("member-body"), num(840)], vec![A::N(1), A::N(2), A::N(840)]),
        ("arc-form:bare-name:unknown", vec![n("iso"), n("acme"), num(5)], vec![A::N(1), A::R("acme"), A::N(5)]),
        ("arc-form:bare-name:joint", vec![n("joint-iso-itu-t"), (Some("ds"), Some(5)), n("module")], vec![A::N(2), A::N(5), A::R("module")]),
    ];
    for (label, arcs, want) in scenarios {
        let key = format!("whole:{}", label);
        ctx.oblige("C07.oid", &key, true);
        let mut env = Env::new();
        env.insert("self".into(), Val::ctor("Rasn"));
        env.insert(param.clone(), Val::Ctor("ObjectIdentifierValue".into(), vec![Val::List(arcs.iter().map(arc).collect())], BTreeMap::new()));
        match ev.eval_fn_body(&g.block, &mut env) {
            Ok(Val::Ctor(ok, p, _)) if ok == "Ok" => {
                let text = match p.first() { Some(Val::Sym(s)) => s.clone(), Some(o) => o.show(), None => String::new() };
                // the arcs in output order: `<n>u32` literals and `<ref:name>` references
                let mut got: Vec<String> = vec![];
                let b = text.as_bytes();
                let mut i = 0;
                while i < b.len() {
                    if text[i..].starts_with("<ref:") {
                        let e = text[i..].find('>').map(|e| i + e).unwrap_or(b.len());
                        got.push(format!("R({})", &text[i + 5..e]));
                        i = e;
                    } else if b[i].is_ascii_digit() && (i == 0 || !(b[i - 1].is_ascii_alphanumeric() || b[i - 1] == b'_')) {
                        let mut j = i;
                        while j < b.len() && b[j].is_ascii_digit() { j += 1; }
                        if text[j..].starts_with("u32") {
                            got.push(format!("N({})", &text[i..j]));
                        }
                        i = j;
                    }
                    i += 1;
                }
                let want_s: Vec<String> = want.iter().map(|a| match a { A::N(v) => format!("N({})", v), A::R(r) => format!("R({})", r) }).collect();
                if got != want_s {
                    ctx.violate("C07.oid", &if label.starts_with("arc-form:") { label.rsplitn(2, ':').last().unwrap_or(label).to_string() } else { format!("whole:{}", label.split(':').next().unwrap_or(label)) }, &g.file, g.line,
                        &format!("OBJECT IDENTIFIER value {{{}}}: format_oid emits the arcs {:?}, X.660 Annex A / X.680 §32: {:?} (N = arc number, R = reference to a value of that name)",
                            arcs.iter().map(|(n, v)| match (n, v) { (Some(n), Some(v)) => format!("{}({})", n, v), (Some(n), None) => n.to_string(), (None, Some(v)) => v.to_string(), _ => "?".into() }).collect::<Vec<_>>().join(" "), got, want_s));
                }
            }
            Ok(o) => ctx.fail_closed("C07.oid", &format!("[{}]: result {}", key, o.show().chars().take(120).collect::<String>())),
            Err(e) => ctx.fail_closed("C07.oid", &format!("[{}]: {}", key, e)),
        }
    }
}

fn strings(m: &Model, ctx: &mut Ctx, ev: &Evaluator) {
    let variants = m.find_enum("CharacterStringType").map(|e| e.variants.clone()).unwrap_or_default();
    let st = anchor_fn(m, ctx, "C07.str", Some("Rasn"), "string_type", None);
    let vt = anchor_fn(m, ctx, "C07.str", Some("Rasn"), "value_to_tokens", None);
    if let (Some(st), Some(vt)) = (st, vt) {
        let mt_ty = model::matches_in(&st.block).into_iter().next();
        let mt_val = model::matches_in(&vt.block).into_iter().find(|mt| tok(&mt.expr) == "string_type");
        if let (Some(mt_ty), Some(mt_val)) = (mt_ty, mt_val) {
            for v in &variants {
                ctx.oblige("C07.str", v, true);
                let a = ev.select_arm(&mt_ty, &Val::ctor(v), &Env::new());
                let b = ev.select_arm(&mt_val, &Val::ctor(v), &Env::new());
                match (a, b) {
                    (Ok((i, _)), Ok((j, _))) => {
                        let tyb = tok(&mt_ty.arms[i].body);
                        let vb = tok(&mt_val.arms[j].body);
                        if tyb.starts_with("Err(") {
                            if !vb.starts_with("Err(") {
                                ctx.violate("C07.str", &format!("{}:unsupported-type-has-values", v), &vt.file, span_line(&mt_val.arms[j]), &format!("{} has no rasn type but values of it are rendered", v));
                            }
                            continue;
                        }
                        let tyname = tyb.trim_start_matches("Ok(quote!(").trim_end_matches("))").to_string();
                        // audited aliases: Utf8String = String; UniversalString::new(Utf8String::from(..))
                        let ok = vb.contains(&format!("quote!({}::", tyname)) || (tyname == "Utf8String" && vb.contains("quote!(String::from(#val))"));
                        if !ok {
                            ctx.violate("C07.str", &format!("{}:constructor", v), &vt.file, span_line(&mt_val.arms[j]),
                                &format!("a {} value is constructed by `{}` but the type is rendered as `{}`: the constant would not have the type it is declared with (or would be checked against another alphabet)", v, vb.chars().take(90).collect::<String>(), tyname));
                        }
                    }
                    (Err(e), _) | (_, Err(e)) => ctx.fail_closed("C07.str", &e),
                }
            }
        } else {
            ctx.fail_closed("C07.str", "string_type / value_to_tokens tables not found");
        }
        // literal tokens
        let b = tok(&vt.block);
        for (key, needle, msg) in [
            ("null", "ASN1Value::Null=>Ok(quote!(()))", "NULL must be rendered as ()"),
            ("boolean", "ASN1Value::Boolean(b)=>Ok(b.to_token_stream())", "BOOLEAN must be rendered as the Rust bool of the same truth value"),
            ("integer", "ASN1Value::Integer(i)=>Ok(Literal::i128_unsuffixed(*i).to_token_stream())", "an unlinked INTEGER value must be rendered as its own i128 literal"),
            ("bitstring", "let bits=b.iter().map(|bit|bit.to_token_stream());Ok(quote!([#(#bits),*].into_iter().collect()))", "a BIT STRING value must be rendered bit for bit, in order"),
            ("octetstring", "let bytes=o.iter().map(|byte|Literal::u8_unsuffixed(*byte));", "an OCTET STRING value must be rendered byte for byte, in order"),
        ] {
            ctx.oblige("C07.lit", key, true);
            if !b.contains(needle) {
                ctx.violate("C07.lit", key, &vt.file, vt.line, msg);
            }
        }
    }
    // cstring
    if let Some(f) = anchor_fn(m, ctx, "C07.quote", None, "cstring", Some("lexer")) {
        ctx.oblige("C07.quote", "unescape", true);
        let b = tok(&f.block);
        if !(b.contains("map(raw_string_literal,|s|{s.replace(\"\\\"\\\"\",\"\\\"\")})")) {
            ctx.violate("C07.quote", "unescape", &f.file, f.line, "cstring must unescape each doubled quote \"\" to one \" with a single replace over the raw literal, and change nothing else");
        }
    }
    if let Some(f) = anchor_fn(m, ctx, "C07.quote", None, "raw_string_literal", Some("lexer")) {
        ctx.oblige("C07.quote", "delimiters", true);
        let b = tok(&f.block);
        if !b.contains("delimited(char('\"'),take_until_and_not(\"\\\"\",\"\\\"\\\"\"),char('\"'))") {
            ctx.violate("C07.quote", "delimiters", &f.file, f.line, "a cstring ends at the first quote that is not doubled");
        }
    }
    // boolean lexer table
    if let Ok(f) = m.find_fn(None, "boolean_value", Some("lexer")) {
        ctx.func(&f.key);
        ctx.oblige("C07.lit", "boolean-lexer", true);
        let mut pairs: Vec<(String, String)> = vec![];
        for c in model::calls_in(&f.block) {
            if model::callee_name(&c).as_deref() == Some("value") && c.args.len() == 2 {
                let inner = tok(&c.args[1]);
                if let Some(k) = inner.split("tag(").nth(1).and_then(|s| s.split(')').next()) {
                    pairs.push((tok(&c.args[0]), k.to_string()));
                }
            }
        }
        pairs.sort();
        let ok = pairs == vec![("ASN1Value::Boolean(false)".to_string(), "FALSE".to_string()), ("ASN1Value::Boolean(true)".to_string(), "TRUE".to_string())];
        if !ok {
            ctx.violate("C07.lit", "boolean-lexer", &f.file, f.line, "TRUE must lex to Boolean(true) and FALSE to Boolean(false)");
        }
    }
    ctx.sample(json!({"string_types": variants}));
}

/// C07.traverse: DEFAULT values are given their meaning (named numbers, literal form, hstring vs bstring) when the linker
/// links them with the component's type; ASN1Type::collect_supertypes is the traversal that gets there. A DEFAULT can
/// sit in a SEQUENCE / SET at any depth below a type assignment: below components, CHOICE alternatives and the element
/// types of SEQUENCE OF / SET OF. The traversal must descend into all five container kinds.
fn default_traversal(m: &Model, ctx: &mut Ctx) {
    let Some(f) = m.fns.iter().find(|f| f.name == "collect_supertypes" && f.self_ty.as_deref() == Some("ASN1Type")) else {
        ctx.fail_closed("C07.traverse", "anchor not found: ASN1Type::collect_supertypes");
        return;
    };
    ctx.func(&f.key);
    let Some(mt) = model::matches_in(&f.block).into_iter().find(|mt| tok(&mt.expr) == "self") else {
        ctx.fail_closed("C07.traverse", "collect_supertypes: no `match self`");
        return;
    };
    for v in ["Sequence", "Set", "Choice", "SequenceOf", "SetOf"] {
        ctx.oblige("C07.traverse", v, true);
        let arm = mt.arms.iter().find(|a| tok(&a.pat).split('|').any(|alt| alt.contains(&format!("ASN1Type::{}(", v))));
        let descends = arm.map(|a| tok(&a.body).contains("collect_supertypes(")).unwrap_or(false);
        if !descends {
            ctx.violate("C07.traverse", &format!("container-not-visited:{}", v), &f.file, arm.map(|a| span_line(a)).unwrap_or(f.line),
                &format!("collect_supertypes does not descend into ASN1Type::{}: a DEFAULT of a SEQUENCE written inline below a {} is handed to the generator unlinked — a named number is emitted as a reference to a constant of that name, an INTEGER as a bare literal, an hstring as a list of bits", v, match v { "Choice" => "CHOICE alternative", "SequenceOf" => "SEQUENCE OF", "SetOf" => "SET OF", o => o }));
        }
    }
}
