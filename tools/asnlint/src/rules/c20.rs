//! C20 — compile() delivers exactly the compiled text, and nothing on failure.
use crate::eval::{Env, Evaluator, Val};
use crate::mir::{dominators, Facts};
use crate::model::{self, tok, Model};
use crate::report::Ctx;
use crate::rules::c08;
use crate::rules::util::*;
use serde_json::json;
use std::collections::{BTreeMap, BTreeSet};

pub fn output_effect(callee: &str) -> Option<&'static str> {
    let c = callee;
    const PATS: [(&str, &str); 18] = [
        ("std::fs::write", "file write"),
        ("std::fs::File::create", "file create"),
        ("std::fs::OpenOptions", "file open for writing"),
        ("std::fs::remove_file", "file removal"),
        ("std::fs::remove_dir", "dir removal"),
        ("std::fs::rename", "file rename"),
        ("std::fs::copy", "file copy"),
        ("std::fs::create_dir", "dir creation"),
        ("std::fs::set_permissions", "permission change"),
        ("std::fs::hard_link", "link creation"),
        ("std::os::unix::fs::symlink", "link creation"),
        ("std::io::stdout", "stdout handle"),
        ("std::io::_print", "print to stdout"),
        ("std::process::Command::spawn", "child process"),
        ("std::process::Command::output", "child process"),
        ("std::process::Command::status", "child process"),
        ("std::thread::spawn", "thread"),
        ("std::io::Stdout::lock", "stdout handle"),
    ];
    for (p, what) in PATS {
        if c.starts_with(p) {
            return Some(what);
        }
    }
    None
}

/// (owner suffix, effect) audited
const ALLOWED: [(&str, &str, &str); 6] = [
    ("Compiler::<B, CompilerReady>::output_generated", "file write", "the one delivery point of compile()"),
    ("Compiler::<B, CompilerReady>::output_generated", "file create", "the one delivery point of compile(); what is written where is decided by C20.dest"),
    ("Compiler::<B, CompilerReady>::output_generated", "file open for writing", "the one delivery point of compile(); truncation is decided by C20.dest"),
    ("Compiler::<B, CompilerReady>::output_generated", "stdout handle", "the one delivery point of compile()"),
    ("generator::rasn::Rasn::internal_fmt", "child process", "rustfmt child: formats finished text; set aside by the property"),
    ("generator::rasn::Rasn::internal_fmt", "thread", "feeds rustfmt's stdin"),
];

/// C20.sources: compile() and compile_to_string() read the same `state.sources`; what they deliver can only agree with what
/// the caller asked for if every builder step keeps the sources added so far. Each `add_asn_*` / `set_output_*` method of
/// each typestate of `Compiler` is evaluated on a state that already holds two sources (where the state has any): the
/// resulting state holds them, in order, followed by the new ones, and the output mode is carried over.
pub fn builder_sources(m: &Model, ctx: &mut Ctx) {
    use crate::eval::{Env, Evaluator, Val};
    use std::collections::BTreeMap as Map;
    let consts = const_resolver(m);
    let hook = |_: &Evaluator, name: &str, a: &[Val]| -> Option<Result<Val, String>> {
        match name {
            ".into" if a.len() == 1 => Some(Ok(a[0].clone())),
            _ => None,
        }
    };
    let ev = Evaluator { consts: &consts, call_hook: &hook, inline: None };
    let mut n = 0;
    for f in m.fns.iter().filter(|f| f.krate == "rasn-compiler" && f.self_ty.as_deref() == Some("Compiler") && (f.name.starts_with("add_asn") || f.name.starts_with("set_output"))) {
        let Some(ity) = &f.impl_ty else { continue };
        let state = ity.rsplit(',').next().unwrap_or("").trim_end_matches('>').trim().to_string();
        let Ok(st) = m.find_struct(&state, None) else {
            ctx.fail_closed("C20.sources", &format!("{}: typestate `{}` not found", f.name, state));
            continue;
        };
        let has_sources = st.fields.iter().any(|(n, _, _)| n == "sources");
        let has_mode = st.fields.iter().any(|(n, _, _)| n == "output_mode");
        ctx.func(&f.key);
        n += 1;
        let key = format!("{}::{}", state, f.name);
        ctx.oblige("C20.sources", &key, true);
        let mut sf = Map::new();
        if has_sources {
            sf.insert("sources".to_string(), Val::List(vec![Val::Sym("S0".into()), Val::Sym("S1".into())]));
        }
        if has_mode {
            sf.insert("output_mode".to_string(), Val::Sym("MODE".into()));
        }
        let mut me = Map::new();
        me.insert("state".to_string(), Val::Ctor(state.clone(), vec![], sf));
        me.insert("backend".to_string(), Val::Sym("BACKEND".into()));
        let mut env = Env::new();
        env.insert("self".into(), Val::Ctor("Compiler".into(), vec![], me));
        let params: Vec<String> = f.sig.inputs.iter().filter_map(|a| match a { syn::FnArg::Typed(t) => Some(tok(&t.pat)), _ => None }).collect();
        let several = f.name.contains("sources");
        for p in &params {
            env.insert(p.clone(), if several { Val::List(vec![Val::Sym("N0".into()), Val::Sym("N1".into())]) } else { Val::Sym("N0".into()) });
        }
        let adds = f.name.starts_with("add_asn");
        match ev.eval_fn_body(&f.block, &mut env) {
            Ok(Val::Ctor(_, _, cf)) => {
                let Some(Val::Ctor(_, _, sf2)) = cf.get("state") else {
                    ctx.fail_closed("C20.sources", &format!("[{}]: the result has no state", key));
                    continue;
                };
                // sources are compared by the marker they wrap: AsnSource::Path(S) / AsnSource::Literal(S) / S
                fn marker(v: &Val) -> String {
                    match v {
                        Val::Ctor(_, p, _) if p.len() == 1 => marker(&p[0]),
                        Val::Sym(s) | Val::Str(s) => s.clone(),
                        o => o.show(),
                    }
                }
                let got: Option<Vec<String>> = match sf2.get("sources") { Some(Val::List(l)) => Some(l.iter().map(marker).collect()), _ => None };
                let mut want: Vec<String> = if has_sources { vec!["S0".into(), "S1".into()] } else { vec![] };
                if adds {
                    want.push("N0".into());
                    if several { want.push("N1".into()); }
                }
                let expect_sources = has_sources || adds;
                if expect_sources && got.as_ref() != Some(&want) {
                    ctx.violate("C20.sources", &format!("sources-not-kept:{}", key), &f.file, f.line,
                        &format!("Compiler<_, {}>::{} on a compiler that holds the sources {:?} yields the sources {:?}; expected {:?}: a source that was added is silently forgotten, compile() and compile_to_string() then deliver bindings for fewer modules than were handed in and still return Ok", state, f.name, if has_sources { vec!["S0", "S1"] } else { vec![] }, got, want));
                }
                if has_mode && !f.name.starts_with("set_output") {
                    let mode = sf2.get("output_mode").map(|v| v.show());
                    if mode.as_deref() != Some("MODE") {
                        ctx.violate("C20.sources", &format!("output-mode-not-kept:{}", key), &f.file, f.line, &format!("Compiler<_, {}>::{} does not carry the output mode over (got {:?})", state, f.name, mode));
                    }
                }
            }
            Ok(o) => ctx.fail_closed("C20.sources", &format!("[{}]: evaluates to {}", key, o.show().chars().take(100).collect::<String>())),
            Err(e) => ctx.fail_closed("C20.sources", &format!("[{}]: {}", key, e)),
        }
    }
    ctx.floor("C20.sources/builder-methods", n, 12);
}

pub fn run(m: &Model, ctx: &mut Ctx, facts: &Facts) {
    ctx.explanation = "C20.effects (MIR): every file/stdout/process effect reachable from Compiler's public methods is located in output_generated (or the audited rustfmt child); nothing else on the compile path writes. \
C20.dom (MIR dominators): output_generated is called only from compile(), at a block dominated by the Continue edge of `internal_compile()?` — on Err nothing is written; and on the Ok edge every path to the return of compile() passes through it (must-pass-through: the delivery is unconditional). \
C20.same (syn + MIR): the argument of output_generated is the `generated` field of fmt(internal_compile()) — the same pipeline compile_to_string() returns. \
C20.dest (decision tables): OutputMode -> action in output_generated (file; directory => generated + FILE_EXTENSION; stdout; none), every io::Result mapped to Err; CLI flags -> OutputMode; \
CLI exit status: Ok => SUCCESS, Err => FAILURE, both backends built through the same builder chain. \
C20.macro: asn1! = parse(compile_to_string(literal or wrapped literal).unwrap().generated). \
File-system semantics (atomicity of fs::write, read-only destinations) are not decided.".into();
    ctx.assumptions = vec![
        "std::fs::write / Stdout::write_all deliver exactly the bytes they are given or return Err".into(),
        "rustfmt child process set aside (C11)".into(),
    ];
    ctx.rule("effect classification of every reachable call; dominance of the delivery call by the Ok edge; normal forms of the two pipelines; decision tables of output_generated, make_output_mode and main");

    // ---------------- effects ----------------
    let roots = facts.find(|b| b.krate == "rasn_compiler" && b.is_pub && b.path.starts_with("Compiler::<") && b.kind != "Closure");
    ctx.floor("C20/compiler-entry-points", roots.len(), 15);
    let (reach, pred) = facts.reachable(&roots);
    for (c, want) in [("std::fs::write::<&std::path::PathBuf, &str>", true), ("std::io::_print", true), ("std::fs::read_to_string::<&std::path::PathBuf>", false)] {
        if output_effect(c).is_some() != want {
            ctx.fail_closed("C20.effects", &format!("classifier self-check failed on {}", c));
        }
    }
    let mut n_calls = 0;
    let mut effects_seen: BTreeSet<String> = BTreeSet::new();
    for &i in &reach {
        let b = &facts.bodies[i];
        let owner = c08::owner_of(&b.path);
        for bl in &b.blocks {
            if bl.t != "call" || bl.cleanup {
                continue;
            }
            n_calls += 1;
            if let Some(what) = output_effect(&bl.callee) {
                let key = format!("{}|{}", owner, what);
                ctx.oblige("C20.effects", &key, true);
                effects_seen.insert(key.clone());
                if !ALLOWED.iter().any(|(o, w, _)| owner.ends_with(o) && *w == what) {
                    ctx.violate("C20.effects", &key, &b.file, bl.line,
                        &format!("`{}` performs a {} (`{}`) on the compile path, which is not an audited (fn, effect) pair: compile() must deliver exactly the compiled text, to the selected destination only; reachable via {}",
                            owner, what, bl.callee, facts.chain(&pred, i).join(" -> ")));
                }
            }
        }
    }
    // the wrappers (command-line tool, asn1! macro) have no output effect of their own: whatever they deliver goes through
    // the library's one delivery point, so that they succeed, fail and write exactly as compile() does
    let mut wrapper_bodies = 0;
    for b in facts.bodies.iter().filter(|b| b.krate == "rasn_compiler_cli" || b.krate == "rasn_compiler_derive") {
        wrapper_bodies += 1;
        for bl in &b.blocks {
            if bl.t != "call" || bl.cleanup {
                continue;
            }
            n_calls += 1;
            if let Some(what) = output_effect(&bl.callee) {
                let owner = c08::owner_of(&b.path);
                ctx.violate("C20.effects", &format!("wrapper:{}|{}", owner, what), &b.file, bl.line,
                    &format!("`{}` of the {} performs a {} of its own (`{}`): the wrappers deliver through the library only — an effect here happens whether or not compilation succeeds and whatever the library would answer for that destination",
                        owner, if b.krate == "rasn_compiler_cli" { "command-line tool" } else { "asn1! macro crate" }, what, bl.callee));
            }
        }
    }
    ctx.floor("C20.effects/wrapper-bodies", wrapper_bodies, 40);
    ctx.oblige_n("C20/calls-classified", n_calls);
    ctx.floor("C20.effects/delivery-effects", effects_seen.iter().filter(|e| e.contains("output_generated")).count(), 2);
    ctx.sample(json!({"effects_on_compile_path": effects_seen}));

    // ---------------- who may call output_generated + dominance ----------------
    let og: Vec<usize> = facts.find(|b| b.krate == "rasn_compiler" && b.path.ends_with("::output_generated"));
    if og.len() != 1 {
        ctx.fail_closed("C20.dom", &format!("expected one output_generated body, found {}", og.len()));
        return;
    }
    let mut callers = vec![];
    for (i, b) in facts.bodies.iter().enumerate() {
        for (bi, bl) in b.blocks.iter().enumerate() {
            if bl.t == "call" && bl.callee.ends_with("::output_generated") {
                callers.push((i, bi));
            }
        }
        if b.fn_refs.iter().any(|r| r.ends_with("::output_generated")) && !b.blocks.iter().any(|bl| bl.callee.ends_with("::output_generated")) {
            ctx.violate("C20.dom", &format!("indirect-delivery:{}", b.path), &b.file, b.line, "output_generated is taken as a fn value: its call sites can no longer be enumerated");
        }
    }
    ctx.oblige("C20.dom", "who-may-call-output_generated", true);
    if callers.len() != 1 || !facts.bodies[callers[0].0].path.ends_with("CompilerReady>::compile") {
        let names: Vec<String> = callers.iter().map(|(i, _)| facts.bodies[*i].path.clone()).collect();
        ctx.violate("C20.dom", "who-may-call-output_generated", "rasn-compiler/src/lib.rs", 0,
            &format!("output_generated must be called exactly once, from compile(); call sites: {:?}", names));
        return;
    }
    let (ci, og_block) = callers[0];
    let c = &facts.bodies[ci];
    ctx.func(&c.path);
    let dom = dominators(c);
    let ic_blocks: Vec<usize> = c.blocks.iter().enumerate().filter(|(_, bl)| bl.t == "call" && bl.callee.ends_with("::internal_compile")).map(|(i, _)| i).collect();
    ctx.oblige("C20.dom", "delivery-dominated-by-Ok-edge", true);
    if ic_blocks.len() != 1 {
        ctx.violate("C20.dom", "internal_compile-call-count", &c.file, c.line, &format!("compile() must run internal_compile exactly once, found {} calls", ic_blocks.len()));
    } else {
        let ic = ic_blocks[0];
        // the `?`: Try::branch on the result, then a switch; the Break arm reaches from_residual
        let mut cur = c.blocks[ic].target;
        let mut branch_block = None;
        for _ in 0..6 {
            if cur < 0 {
                break;
            }
            let bl = &c.blocks[cur as usize];
            if bl.t == "call" && bl.callee.contains("ops::Try>::branch") {
                branch_block = Some(cur as usize);
                break;
            }
            cur = bl.succ.first().map(|s| *s as i64).unwrap_or(-1);
        }
        match branch_block {
            None => ctx.violate("C20.dom", "no-question-mark-on-internal_compile", &c.file, c.blocks[ic].line,
                "compile() does not propagate internal_compile()'s error with `?` before delivering: a failed compilation must return before any write"),
            Some(bb) => {
                // switch after branch
                let mut sw = c.blocks[bb].target;
                for _ in 0..4 {
                    if sw < 0 || c.blocks[sw as usize].t == "switch" {
                        break;
                    }
                    sw = c.blocks[sw as usize].succ.first().map(|s| *s as i64).unwrap_or(-1);
                }
                if sw < 0 || c.blocks[sw as usize].t != "switch" {
                    ctx.fail_closed("C20.dom", "no switch after Try::branch in compile()");
                } else {
                    let s = &c.blocks[sw as usize];
                    let reaches_residual = |start: usize| -> bool {
                        let mut cur = start;
                        for _ in 0..6 {
                            let bl = &c.blocks[cur];
                            if bl.t == "call" && bl.callee.contains("from_residual") {
                                return true;
                            }
                            if bl.t == "call" || bl.t == "switch" || bl.t == "return" {
                                return false;
                            }
                            match bl.succ.first() {
                                Some(n) => cur = *n,
                                None => return false,
                            }
                        }
                        false
                    };
                    let cont: Vec<usize> = s.succ.iter().cloned().filter(|t| !reaches_residual(*t) && c.blocks[*t].t != "unreachable").collect();
                    let brk: Vec<usize> = s.succ.iter().cloned().filter(|t| reaches_residual(*t)).collect();
                    if cont.len() != 1 || brk.len() != 1 {
                        ctx.fail_closed("C20.dom", &format!("cannot identify Continue/Break arms of `?` in compile(): {:?}/{:?}", cont, brk));
                    } else if !dom[og_block].contains(&cont[0]) || !dom[og_block].contains(&ic) {
                        ctx.violate("C20.dom", "delivery-dominated-by-Ok-edge", &c.file, c.blocks[og_block].line,
                            "the call to output_generated is not dominated by the Ok edge of `internal_compile()?`: something can be written although compilation failed");
                    } else {
                        ctx.sample(json!({"compile": {"internal_compile_bb": ic, "try_branch_bb": bb, "continue_bb": cont[0], "break_bb": brk[0], "output_generated_bb": og_block}}));
                    }
                    // must-pass-through: once compilation has succeeded, every path to the return of compile() runs the
                    // delivery (a successful compile() always hands its text to the selected destination, whatever the text)
                    if cont.len() == 1 {
                        ctx.oblige("C20.dom", "every-Ok-path-delivers", true);
                        let mut seen: BTreeSet<usize> = BTreeSet::new();
                        let mut stack = vec![cont[0]];
                        let mut escaped: Option<usize> = None;
                        while let Some(b) = stack.pop() {
                            if b == og_block || !seen.insert(b) {
                                continue;
                            }
                            let bl = &c.blocks[b];
                            if bl.cleanup || bl.t == "unreachable" || bl.t == "resume" {
                                continue;
                            }
                            if bl.t == "return" {
                                escaped = Some(b);
                                break;
                            }
                            for n in &bl.succ {
                                if !c.blocks[*n].cleanup {
                                    stack.push(*n);
                                }
                            }
                        }
                        if let Some(b) = escaped {
                            // the block where the path leaves the way to the delivery: the last switch seen on it
                            let line = seen.iter().filter(|x| c.blocks[**x].t == "switch").map(|x| c.blocks[*x].line).max().unwrap_or(c.blocks[b].line);
                            ctx.violate("C20.dom", "every-Ok-path-delivers", &c.file, line,
                                "compile() can return after a successful internal_compile() without calling output_generated (the delivery is conditional): the destination is then neither written nor checked, although compile_to_string() returns a text for the same input");
                        }
                    }
                }
            }
        }
    }
    // compile_to_string must not reach a delivery effect at all
    let cts = facts.find(|b| b.krate == "rasn_compiler" && b.path.ends_with("::compile_to_string"));
    ctx.floor("C20.dom/compile_to_string-bodies", cts.len(), 2);
    let (r2, _) = facts.reachable(&cts);
    ctx.oblige("C20.dom", "compile_to_string-writes-nothing", true);
    if r2.contains(&og[0]) {
        ctx.violate("C20.dom", "compile_to_string-writes-nothing", "rasn-compiler/src/lib.rs", 0, "compile_to_string() can reach output_generated: it must return the text without writing anything");
    }

    same_pipeline(m, ctx);
    dest_tables(m, ctx);
    cli(m, ctx);
    cli_stdout(ctx, facts);
    builder_sources(m, ctx);
    asn1_macro(m, ctx);
}

fn chain_of(e: &syn::Expr, out: &mut Vec<String>) {
    match e {
        syn::Expr::MethodCall(mc) => {
            chain_of(&mc.receiver, out);
            out.push(mc.method.to_string());
        }
        syn::Expr::Try(t) => {
            chain_of(&t.expr, out);
            out.push("?".into());
        }
        syn::Expr::Field(f) => {
            chain_of(&f.base, out);
            out.push(format!(".{}", tok(&f.member)));
        }
        syn::Expr::Call(c) => {
            out.push(tok(&c.func).split('<').next().unwrap_or("").trim_end_matches("::").to_string());
        }
        syn::Expr::Path(p) => out.push(tok(p)),
        syn::Expr::Paren(p) => chain_of(&p.expr, out),
        syn::Expr::Reference(r) => chain_of(&r.expr, out),
        other => out.push(tok(other)),
    }
}

fn same_pipeline(m: &Model, ctx: &mut Ctx) {
    let compile = m.fns.iter().find(|f| f.name == "compile" && f.self_ty.as_deref() == Some("Compiler"));
    let cts: Vec<_> = m.fns.iter().filter(|f| f.name == "compile_to_string" && f.self_ty.as_deref() == Some("Compiler")).collect();
    let Some(compile) = compile else {
        ctx.fail_closed("C20.same", "anchor not found: Compiler::compile");
        return;
    };
    ctx.func(&compile.key);
    ctx.oblige("C20.same", "compile-pipeline", true);
    // the argument of output_generated
    let og: Vec<_> = model::method_calls_in(&compile.block).into_iter().filter(|c| c.method == "output_generated").collect();
    if og.len() != 1 {
        ctx.fail_closed("C20.same", "compile(): expected one output_generated call");
        return;
    }
    let arg = tok(&og[0].args);
    let local = arg.trim_start_matches('&').strip_suffix(".generated").map(|s| s.to_string());
    let mut ok = false;
    let mut pipeline = vec![];
    if let Some(local) = &local {
        for st in &compile.block.stmts {
            if let syn::Stmt::Local(l) = st {
                if tok(&l.pat) == *local || tok(&l.pat) == format!("mut {}", local) {
                    if let Some(init) = &l.init {
                        chain_of(&init.expr, &mut pipeline);
                    }
                }
            }
        }
        ok = pipeline == vec!["self", "internal_compile", "?", "fmt"];
    }
    if !ok {
        ctx.violate("C20.same", "compile-pipeline", &compile.file, span_line(&og[0]),
            &format!("compile() delivers `{}` (pipeline {:?}); it must deliver the `generated` field of internal_compile()?.fmt::<B>() — exactly the text compile_to_string() returns", arg, pipeline));
    }
    // returned warnings come from the same result
    ctx.oblige("C20.same", "compile-returns-warnings-of-same-result", true);
    if let Some(local) = &local {
        let tail = compile.block.stmts.last().map(|s| tok(s)).unwrap_or_default();
        if tail != format!("Ok({}.warnings)", local) {
            ctx.violate("C20.same", "compile-returns-warnings-of-same-result", &compile.file, compile.line, &format!("compile() returns `{}`, expected Ok({}.warnings)", tail, local));
        }
    }
    // compile_to_string (Ready state): internal_compile().map(CompileResult::fmt)
    let mut found_ready = false;
    for f in &cts {
        ctx.func(&f.key);
        let tail = f.block.stmts.last();
        let mut ch = vec![];
        if let Some(syn::Stmt::Expr(e, None)) = tail {
            chain_of(e, &mut ch);
        }
        if ch.contains(&"internal_compile".to_string()) {
            found_ready = true;
            ctx.oblige("C20.same", "compile_to_string-pipeline", true);
            let body = tok(&f.block);
            if !(ch == vec!["self", "internal_compile", "map"] && body.contains(".map(CompileResult::fmt::<B>)")) {
                ctx.violate("C20.same", "compile_to_string-pipeline", &f.file, f.line,
                    &format!("compile_to_string() is {:?}; expected internal_compile().map(CompileResult::fmt::<B>) — the same pipeline compile() delivers", ch));
            }
        } else {
            // SourcesSet state delegates
            ctx.oblige("C20.same", "compile_to_string-delegation", true);
            if ch != vec!["self", "set_output_mode", "compile_to_string"] || !tok(&f.block).contains("OutputMode::NoOutput") {
                ctx.violate("C20.same", "compile_to_string-delegation", &f.file, f.line, &format!("compile_to_string() without output mode must delegate with OutputMode::NoOutput, found {:?}", ch));
            }
        }
    }
    if !found_ready {
        ctx.fail_closed("C20.same", "no compile_to_string calling internal_compile found");
    }
    fmt_keeps(m, ctx, "C20.same");
}

/// CompileResult::fmt — the step between internal_compile and the caller — may only replace `generated` by its formatted
/// version (or keep it when the formatter fails); the warnings pass through as they are, equal ones included (two
/// definitions of the same unsupported kind produce equal warnings: each accounts for one definition). Shared as C10.local.
pub fn fmt_keeps(m: &Model, ctx: &mut Ctx, rule: &str) {
    // CompileResult::fmt only replaces `generated` by its formatted version (or keeps it)
    if let Ok(f) = m.find_fn(Some("CompileResult"), "fmt", None) {
        ctx.oblige(rule, "fmt-keeps-text-on-format-failure", true);
        // evaluated with a formatter that succeeds and one that fails: formatted text / the text as it was; warnings untouched
        for fails in [false, true] {
            let hook = move |_: &Evaluator, name: &str, a: &[Val]| -> Option<Result<Val, String>> {
                if name.ends_with("::format_bindings") {
                    let ok = matches!(a.first(), Some(Val::Str(t)) if t == "TEXT");
                    return Some(Ok(if fails || !ok { Val::Ctor("Err".into(), vec![Val::Sym("format error".into())], BTreeMap::new()) } else { Val::Ctor("Ok".into(), vec![Val::Str("FORMATTED TEXT".into())], BTreeMap::new()) }));
                }
                None
            };
            let consts = const_resolver(m);
            let ev = Evaluator { consts: &consts, call_hook: &hook, inline: None };
            let mut me = BTreeMap::new();
            me.insert("generated".to_string(), Val::Str("TEXT".into()));
            me.insert("warnings".to_string(), Val::List(vec![Val::Sym("W".into()), Val::Sym("W".into()), Val::Sym("V".into())]));
            let mut env = Env::new();
            env.insert("self".into(), Val::Ctor("CompileResult".into(), vec![], me));
            match ev.eval_fn_body(&f.block, &mut env) {
                Ok(Val::Ctor(n, _, fields)) if n == "CompileResult" => {
                    let text = fields.get("generated").map(|v| v.show()).unwrap_or_default();
                    let warns = fields.get("warnings").map(|v| v.show()).unwrap_or_default();
                    let want = if fails { "\"TEXT\"" } else { "\"FORMATTED TEXT\"" };
                    if text != want || warns != "[W,W,V]" {
                        ctx.violate(rule, "fmt-keeps-text-on-format-failure", &f.file, f.line, &format!("CompileResult::fmt with a formatter that {} returns generated = {} and warnings = {}; expected {} and [W,W,V]: formatting may only replace the text by its formatted version, keeps it when the formatter fails, and hands every warning on (two equal warnings account for two definitions)", if fails { "fails" } else { "succeeds" }, text, warns, want));
                    }
                }
                Ok(o) => ctx.fail_closed(rule, &format!("[CompileResult::fmt]: result {}", o.show())),
                Err(e) => ctx.fail_closed(rule, &format!("[CompileResult::fmt]: {}", e)),
            }
        }
    } else {
        ctx.fail_closed(rule, "anchor not found: CompileResult::fmt");
    }
}

fn dest_tables(m: &Model, ctx: &mut Ctx) {
    let Some(f) = anchor_fn(m, ctx, "C20.dest", Some("Compiler"), "output_generated", None) else { return };
    let gen_param = f.sig.inputs.iter().filter_map(|a| match a { syn::FnArg::Typed(t) => Some(tok(&t.pat)), _ => None }).next().unwrap_or("generated".into());
    let ms = model::matches_in(&f.block);
    let Some(mt) = ms.iter().find(|mt| tok(&mt.expr).contains("output_mode")) else {
        ctx.fail_closed("C20.dest", "output_generated: no match over the output mode");
        return;
    };
    let variants = m.find_enum("OutputMode").map(|e| e.variants.clone()).unwrap_or_default();
    ctx.floor("C20.dest/output-modes", variants.len(), 3);
    let consts_base = const_resolver(m);
    let consts = |n: &str| -> Option<Val> {
        if n.ends_with("FILE_EXTENSION") {
            return Some(Val::Str(".EXT".into()));
        }
        consts_base(n)
    };
    // The arm is evaluated over a small effect model: std's writing primitives return a value that records
    // (destination, bytes, truncating?) and the arm must evaluate to Ok(<one delivery>) or to an Err built by map_err.
    fn named(n: &str, fields: &[(&str, Val)]) -> Val {
        Val::Ctor(n.into(), vec![], fields.iter().map(|(k, v)| (k.to_string(), v.clone())).collect())
    }
    fn field(v: &Val, k: &str) -> Option<Val> {
        match v { Val::Ctor(_, _, f) => f.get(k).cloned(), _ => None }
    }
    fn ok(v: Val) -> Val {
        Val::Ctor("Ok".into(), vec![v], BTreeMap::new())
    }
    let dir = std::cell::Cell::new(false);
    let hook = |ev: &Evaluator, name: &str, a: &[Val]| -> Option<Result<Val, String>> {
        let last = name.rsplit("::").next().unwrap_or(name);
        match (name, last) {
            (".is_dir", _) => Some(Ok(Val::Bool(dir.get()))),
            (".is_file", _) => Some(Ok(Val::Bool(!dir.get()))),
            // whether the destination is a directory is a fact about the file system, not about the spelling of the path
            (".extension", _) | (".file_name", _) | (".file_stem", _) | (".ends_with", _) | (".to_str", _) | (".to_string_lossy", _) | (".components", _) if matches!(a.first(), Some(Val::Sym(p)) if p == "P") =>
                Some(Err(format!("$shape:{}", &name[1..]))),
            (".join", _) => match (a.first(), a.get(1)) {
                (Some(Val::Sym(p)), Some(Val::Str(x))) => Some(Ok(Val::Sym(format!("{}/{}", p, x)))),
                _ => Some(Err("path.join with an unmodelled argument".into())),
            },
            (".as_bytes", _) | (".as_str", _) | (".as_path", _) | (".as_ref", _) | (".to_owned", _) | (".to_path_buf", _) | (".clone", _) | (".to_string", _) if a.len() == 1 => Some(Ok(a[0].clone())),
            (".display", _) => Some(Ok(Val::Str("<path>".into()))),
            // error mapping leaves a successful delivery as it is
            (".map_err", _) | (".or_else", _) if matches!(a.first(), Some(Val::Ctor(n, _, _)) if n == "Ok") => Some(Ok(a[0].clone())),
            (".and_then", _) | (".map", _) if matches!(a.first(), Some(Val::Ctor(n, _, _)) if n == "Ok") => match (&a[0], a.get(1)) {
                (Val::Ctor(_, p, _), Some(Val::Closure(cl, cenv))) => {
                    let r = ev.apply_closure(&syn::Expr::Closure((**cl).clone()), &[p.first().cloned().unwrap_or(Val::Unit)], cenv);
                    Some(if name == ".map" { r.map(ok) } else { r })
                }
                _ => None,
            },
            (n, "write") if n.ends_with("fs::write") => Some(Ok(ok(named("Delivered", &[("to", a.first().cloned().unwrap_or(Val::Unit)), ("bytes", a.get(1).cloned().unwrap_or(Val::Unit)), ("truncating", Val::Bool(true))])))),
            (n, "create") if n.ends_with("File::create") => Some(Ok(ok(named("File", &[("to", a.first().cloned().unwrap_or(Val::Unit)), ("truncating", Val::Bool(true))])))),
            (n, "new") if n.ends_with("OpenOptions::new") => Some(Ok(named("OpenOptions", &[("truncate", Val::Bool(false)), ("append", Val::Bool(false)), ("write", Val::Bool(false)), ("create", Val::Bool(false))]))),
            (".write", _) | (".create", _) | (".truncate", _) | (".append", _) | (".create_new", _) if matches!(a.first(), Some(Val::Ctor(n, _, _)) if n == "OpenOptions") => {
                let Val::Ctor(n, p, mut f) = a[0].clone() else { return None };
                f.insert(name.trim_start_matches('.').to_string(), a.get(1).cloned().unwrap_or(Val::Bool(true)));
                Some(Ok(Val::Ctor(n, p, f)))
            }
            (".open", _) if matches!(a.first(), Some(Val::Ctor(n, _, _)) if n == "OpenOptions") => {
                let t = field(&a[0], "truncate") == Some(Val::Bool(true)) && field(&a[0], "append") != Some(Val::Bool(true));
                Some(Ok(ok(named("File", &[("to", a.get(1).cloned().unwrap_or(Val::Unit)), ("truncating", Val::Bool(t))]))))
            }
            (".write_all", _) => match a.first() {
                Some(Val::Ctor(n, _, _)) if n == "File" => Some(Ok(ok(named("Delivered", &[("to", field(&a[0], "to").unwrap_or(Val::Unit)), ("bytes", a.get(1).cloned().unwrap_or(Val::Unit)), ("truncating", field(&a[0], "truncating").unwrap_or(Val::Bool(false)))])))),
                Some(Val::Ctor(n, _, _)) if n == "Stdout" => Some(Ok(ok(named("Delivered", &[("to", Val::Sym("<stdout>".into())), ("bytes", a.get(1).cloned().unwrap_or(Val::Unit)), ("truncating", Val::Bool(true))])))),
                _ => None,
            },
            // a single write() may deliver only part of the text: not a delivery of the whole text
            (".write", _) if matches!(a.first(), Some(Val::Ctor(n, _, _)) if n == "File" || n == "Stdout") => Some(Ok(ok(named("PartialWrite", &[("note", Val::Str("write() returns after any number of bytes; the count is not checked".into()))])))),
            (".flush", _) => Some(Ok(ok(Val::Unit))),
            // print! / println! write to stdout and *panic* when the write fails ("failed printing to stdout")
            ("print!", _) | ("println!", _) => Some(Err("$panic:print!".into())),
            (n, "stdout") if n.ends_with("io::stdout") => Some(Ok(Val::Ctor("Stdout".into(), vec![], BTreeMap::new()))),
            (".lock", _) if matches!(a.first(), Some(Val::Ctor(n, _, _)) if n == "Stdout") => Some(Ok(a[0].clone())),
            _ => None,
        }
    };
    let ev = Evaluator { consts: &consts, call_hook: &hook, inline: None };
    for v in &variants {
        let scenarios: Vec<(bool, &str)> = if v == "SingleFile" { vec![(false, "P"), (true, "P/generated.EXT")] } else if v == "Stdout" { vec![(false, "<stdout>")] } else { vec![(false, "")] };
        for (is_dir, want_to) in scenarios {
            let key = format!("OutputMode::{}{}", v, if v == "SingleFile" { if is_dir { ":directory" } else { ":file" } } else { "" });
            ctx.oblige("C20.dest", &key, true);
            dir.set(is_dir);
            let val = if v == "SingleFile" { Val::Ctor(v.clone(), vec![Val::Sym("P".into())], BTreeMap::new()) } else { Val::ctor(v) };
            let mut env0 = Env::new();
            env0.insert(gen_param.clone(), Val::Sym("GENERATED".into()));
            match ev.select_arm(mt, &val, &env0) {
                Err(e) => ctx.fail_closed("C20.dest", &format!("{}: {}", key, e)),
                Ok((i, mut e2)) => {
                    let body = tok(&mt.arms[i].body);
                    let r = ev.eval(&mt.arms[i].body, &mut e2);
                    let line = span_line(&mt.arms[i]);
                    match (v.as_str(), r) {
                        ("NoOutput", Ok(Val::Ctor(o, p, _))) if o == "Ok" && p.first() == Some(&Val::Unit) => {}
                        ("NoOutput", Ok(o)) => ctx.violate("C20.dest", &key, &f.file, line, &format!("output mode NoOutput must do nothing and return Ok(()); the arm evaluates to {}", o.show())),
                        (_, Ok(Val::Ctor(o, p, _))) if o == "Ok" && matches!(p.first(), Some(Val::Ctor(n, _, _)) if n == "Delivered") => {
                            let d = p[0].clone();
                            let to = field(&d, "to").map(|x| x.show()).unwrap_or_default();
                            let bytes = field(&d, "bytes").map(|x| x.show()).unwrap_or_default();
                            if to != want_to {
                                ctx.violate("C20.dest", &format!("{}:destination", key), &f.file, line, &format!("output mode {} delivers to `{}`; the destination is `{}` (the given file, or generated<ext> inside a given directory)", key, to, want_to));
                            }
                            if bytes != "GENERATED" {
                                ctx.violate("C20.dest", &format!("{}:text", key), &f.file, line, &format!("output mode {} writes `{}`, not exactly the compiled text handed to output_generated", key, bytes));
                            }
                            if field(&d, "truncating") != Some(Val::Bool(true)) {
                                ctx.violate("C20.dest", &format!("{}:stale-tail", key), &f.file, line, &format!("output mode {} opens the destination without truncating it: an existing longer file keeps its tail after the compiled text", key));
                            }
                        }
                        (_, Ok(o)) => ctx.violate("C20.dest", &key, &f.file, line, &format!("output mode {}: the arm does not evaluate to one delivery of the compiled text (got {}); recognised primitives: fs::write, File::create / OpenOptions(..truncate(true)).open + write_all, io::stdout().write_all", key, o.show().chars().take(160).collect::<String>())),
                        (_, Err(e)) if e.contains("$shape:") => ctx.violate("C20.dest", &format!("{}:kind-from-spelling", key), &f.file, line,
                            &format!("output mode {}: what is done with the destination depends on `path.{}()` — on how the path is spelt. Whether it is a directory (generated<ext> goes inside) or a file is a fact about the file system (`is_dir()`): a directory named `out.v1` and a file named `bindings` exist", key, e.split("$shape:").nth(1).unwrap_or("?").split(|c: char| !c.is_alphanumeric() && c != '_').next().unwrap_or("?"))),
                        (_, Err(e)) if e.contains("$panic:") => ctx.violate("C20.dest", &format!("{}:panics-on-write-failure", key), &f.file, line,
                            &format!("output mode {} delivers the text with `print!`, which panics when standard output cannot be written (a closed pipe, /dev/full): an unwritable destination must be reported as Err — the CLI then exits with a panic (status 101) instead of the error", key)),
                        (_, Err(e)) => ctx.fail_closed("C20.dest", &format!("{}: {}", key, e)),
                    }
                    if v != "NoOutput" && !body.contains(".map_err(") && !body.contains("?") {
                        ctx.violate("C20.dest", &format!("{}:io-error", key), &f.file, line, "the io::Result of the delivery must be turned into the fn's Err (map_err / ?)");
                    }
                    if body.contains("unwrap()") || body.contains("expect(") {
                        ctx.violate("C20.dest", &format!("OutputMode::{}:unwrap", v), &f.file, line, "an unwritable destination must be reported as Err, not a panic");
                    }
                }
            }
        }
    }
}

fn cli(m: &Model, ctx: &mut Ctx) {
    let consts = const_resolver(m);
    let ev = Evaluator { consts: &consts, call_hook: &crate::eval::no_hook, inline: None };
    // make_output_mode truth table
    if let Some(f) = anchor_fn(m, ctx, "C20.cli", None, "make_output_mode", Some("bin")) {
        let p = f.sig.inputs.iter().filter_map(|a| match a { syn::FnArg::Typed(t) => Some(tok(&t.pat)), _ => None }).next().unwrap_or("args".into());
        for path in [true, false] {
            for stdout in [true, false] {
                for no_output in [true, false] {
                    let key = format!("output_path={} stdout={} no_output={}", path, stdout, no_output);
                    ctx.oblige("C20.cli", &key, true);
                    let mut n = BTreeMap::new();
                    n.insert("output_path".to_string(), if path { Val::some(Val::Sym("P".into())) } else { Val::none() });
                    n.insert("stdout".to_string(), Val::Bool(stdout));
                    n.insert("no_output".to_string(), Val::Bool(no_output));
                    let mut env = Env::new();
                    env.insert(p.clone(), Val::Ctor("OutputArgGroup".into(), vec![], n));
                    match ev.eval_fn_body(&f.block, &mut env) {
                        Ok(v) => {
                            let got = v.show();
                            let want_prefix = if path { "SingleFile(P)" } else if stdout { "Stdout" } else if no_output { "NoOutput" } else { "SingleFile(" };
                            if !got.starts_with(want_prefix) {
                                ctx.violate("C20.cli", &format!("make_output_mode:{}", key), &f.file, f.line, &format!("CLI flags [{}] select `{}`, documented: {}", key, got, want_prefix));
                            }
                        }
                        Err(e) => ctx.fail_closed("C20.cli", &format!("[{}]: {}", key, e)),
                    }
                }
            }
        }
    }
    // main: exit status and builder chains
    if let Some(f) = anchor_fn(m, ctx, "C20.cli", None, "main", Some("bin")) {
        let ms = model::matches_in(&f.block);
        let Some(mt) = ms.iter().find(|mt| mt.arms.len() == 2 && mt.arms.iter().any(|a| tok(&a.pat).starts_with("Ok(")) && mt.arms.iter().any(|a| tok(&a.pat).starts_with("Err(")) && tok(&mt.arms[0].body).contains("ExitCode::")) else {
            ctx.fail_closed("C20.cli", "main: no match over the compile result");
            return;
        };
        for (ctor, want) in [("Ok", "SUCCESS"), ("Err", "FAILURE")] {
            ctx.oblige("C20.cli", &format!("exit:{}", ctor), true);
            let val = Val::Ctor(ctor.into(), vec![Val::Sym("x".into())], BTreeMap::new());
            match ev.select_arm(mt, &val, &Env::new()) {
                Ok((i, _)) => {
                    let tail = match &*mt.arms[i].body {
                        syn::Expr::Block(b) => b.block.stmts.last().map(|s| tok(s)).unwrap_or_default(),
                        o => tok(o),
                    };
                    if tail != format!("ExitCode::{}", want) {
                        ctx.violate("C20.cli", &format!("exit:{}", ctor), &f.file, span_line(&mt.arms[i]), &format!("the CLI returns `{}` when the library returns {}; it must fail exactly when compile() returns Err", tail, ctor));
                    }
                }
                Err(e) => ctx.fail_closed("C20.cli", &e),
            }
        }
        cli_walk(m, ctx, f);
        // the scrutinee is the result of compile()
        let bm: Vec<_> = ms.iter().filter(|mt| tok(&mt.expr).contains("backend")).collect();
        ctx.oblige("C20.cli", "builder-chains-agree", true);
        if bm.len() != 1 {
            ctx.fail_closed("C20.cli", "main: no match over the backend argument");
        } else {
            let chains: Vec<Vec<String>> = bm[0].arms.iter().map(|a| {
                let mut c = vec![];
                chain_of(&a.body, &mut c);
                c
            }).collect();
            let norm: Vec<Vec<String>> = chains.iter().map(|c| c.iter().skip(1).cloned().collect()).collect();
            let want = vec!["add_asn_sources_by_path".to_string(), "set_output_mode".to_string(), "compile".to_string()];
            if norm.iter().any(|c| *c != want) {
                ctx.violate("C20.cli", "builder-chains-agree", &f.file, span_line(bm[0]), &format!("every backend arm of main must be Compiler::new().add_asn_sources_by_path(..).set_output_mode(..).compile(); found {:?}", chains));
            }
            let args: Vec<String> = bm[0].arms.iter().map(|a| tok(&a.body).split("::new()").nth(1).unwrap_or("").to_string()).collect();
            if args.windows(2).any(|w| w[0] != w[1]) {
                ctx.violate("C20.cli", "builder-chains-agree", &f.file, span_line(bm[0]), "the backend arms of main pass different sources/output to the compiler");
            }
        }
    }
}

fn asn1_macro(m: &Model, ctx: &mut Ctx) {
    let Some(f) = m.fns.iter().find(|f| f.name == "asn1" && f.krate == "rasn-compiler-derive") else {
        ctx.fail_closed("C20.macro", "anchor not found: asn1!");
        return;
    };
    ctx.func(&f.key);
    ctx.oblige("C20.macro", "pipeline", true);
    let tail = f.block.stmts.last();
    let mut ch = vec![];
    if let Some(syn::Stmt::Expr(e, None)) = tail {
        chain_of(e, &mut ch);
    }
    let want = vec!["rasn_compiler::Compiler::", "add_asn_literal", "compile_to_string", "unwrap", ".generated", "parse", "unwrap"];
    let got: Vec<&str> = ch.iter().map(|s| s.as_str()).collect();
    let ok = got.len() == want.len() && got.iter().zip(want.iter()).all(|(g, w)| g == w || (w.ends_with("::") && g.starts_with(w.trim_end_matches("::"))));
    if !ok {
        ctx.violate("C20.macro", "pipeline", &f.file, f.line, &format!("asn1! must expand to parse(compile_to_string(literal).unwrap().generated); found chain {:?}", ch));
    }
    ctx.oblige("C20.macro", "wrapping", true);
    // the text handed to the compiler: the statements ahead of the pipeline are evaluated on a full module and on a snippet,
    // and the argument of add_asn_literal is read back
    {
        let arg = model::method_calls_in(&f.block).into_iter().find(|mc| mc.method == "add_asn_literal").and_then(|mc| mc.args.first().map(|a| tok(a)));
        match arg {
            None => ctx.fail_closed("C20.macro", "asn1!: no add_asn_literal call"),
            Some(var) => {
                let consts = const_resolver(m);
                let hdr = m.consts.iter().find(|c| c.name == "DUMMY_HEADER").and_then(|c| lit_of(&c.expr));
                let ftr = m.consts.iter().find(|c| c.name == "DUMMY_FOOTER").and_then(|c| lit_of(&c.expr));
                for (label, text) in [("module", "M DEFINITIONS ::= BEGIN A ::= INTEGER END"), ("module", "M DEFINITIONS AUTOMATIC TAGS ::=BEGIN\nA ::= INTEGER\nEND"), ("snippet", "A ::= INTEGER"), ("snippet", "A ::= INTEGER B ::= A"), ("snippet", "A ::= INTEGER -- a number"), ("snippet", "a A ::= 5")] {
                    let t = text.to_string();
                    let hook = move |_: &Evaluator, name: &str, _: &[Val]| -> Option<Result<Val, String>> {
                        match name {
                            ".value" => Some(Ok(Val::Str(t.clone()))),
                            // whatever the argument struct is called and however its literal is reached: `.value()` yields the text
                            "parse_macro_input!" => {
                                let mut cfg = BTreeMap::new();
                                for fld in ["asn", "input", "literal", "source"] {
                                    cfg.insert(fld.to_string(), Val::ctor("LitStr"));
                                }
                                Some(Ok(Val::Ctor("MacroInput".into(), vec![], cfg)))
                            }
                            _ => None,
                        }
                    };
                    let ev = Evaluator { consts: &consts, call_hook: &hook, inline: None };
                    let mut env = Env::new();
                    if let (Some(h), Some(f2)) = (&hdr, &ftr) {
                        env.insert("DUMMY_HEADER".into(), h.clone());
                        env.insert("DUMMY_FOOTER".into(), f2.clone());
                    }
                    let mut err = None;
                    for st in &f.block.stmts {
                        if let syn::Stmt::Local(l) = st {
                            let Some(init) = &l.init else { continue };
                            match ev.eval(&init.expr, &mut env) {
                                Ok(v) => { env.insert(tok(&l.pat).trim_start_matches("mut ").to_string(), v); }
                                Err(e) => { err = Some(e); break }
                            }
                        }
                    }
                    if let Some(e) = err {
                        ctx.fail_closed("C20.macro", &format!("[asn1! {}]: {}", label, e));
                        continue;
                    }
                    match env.get(&var) {
                        Some(Val::Str(got)) => {
                            // a full module passes through unchanged; a bare snippet becomes the body of the dummy module: header, the
                            // snippet as written, the closing END — with a token boundary on both sides of the snippet (its last
                            // token may be a reference, a number or a line comment, none of which END may be glued to)
                            let ok = if label == "module" { *got == text } else {
                                match &hdr {
                                    Some(Val::Str(h)) => match got.strip_prefix(h.as_str()).and_then(|r| r.strip_prefix(text)) {
                                        Some(rest) => h.ends_with(|c: char| c.is_whitespace()) && rest.trim() == "END" && rest.starts_with('\n'),
                                        None => false,
                                    },
                                    _ => false,
                                }
                            };
                            if !ok {
                                ctx.violate("C20.macro", "wrapping", &f.file, f.line, &format!("asn1! on the {} `{}` hands `{}` to the compiler: a full module passes through unchanged, a bare snippet is wrapped in DUMMY_HEADER .. END with a line break between the snippet and END (`B ::= A` + `END` is the reference `AEND`, and a trailing `-- comment` swallows an END on the same line): the macro fails where the library compiles the same module", label, text, got.chars().skip(got.len().saturating_sub(40)).collect::<String>().replace('\n', "\\n")));
                            }
                        }
                        o => ctx.fail_closed("C20.macro", &format!("[asn1! {}]: the argument of add_asn_literal evaluates to {:?}", label, o.map(|v| v.show()))),
                    }
                }
            }
        }
    }
    let hdr = m.consts.iter().find(|c| c.name == "DUMMY_HEADER").and_then(|c| lit_of(&c.expr));
    ctx.oblige("C20.macro", "dummy-header", true);
    match hdr {
        Some(Val::Str(s)) if s.contains("DEFINITIONS AUTOMATIC TAGS") && s.trim_end().ends_with("BEGIN") => {}
        _ => ctx.violate("C20.macro", "dummy-header", &f.file, 0, "DUMMY_HEADER must be an AUTOMATIC TAGS module header ending in BEGIN"),
    }
}

/// C20.cli (MIR): with `--stdout` the standard output of the command-line tool *is* the bindings. Nothing in the CLI crate
/// itself may write to stdout (diagnostics go to stderr): every body of the binary crate is scanned for stdout effects.
fn cli_stdout(ctx: &mut Ctx, facts: &Facts) {
    let bodies: Vec<usize> = facts.find(|b| b.krate == "rasn_compiler_cli");
    ctx.floor("C20.cli/binary-crate-bodies", bodies.len(), 3);
    let mut n = 0;
    for &i in &bodies {
        let b = &facts.bodies[i];
        for bl in &b.blocks {
            if bl.t != "call" || bl.cleanup {
                continue;
            }
            n += 1;
            if let Some(what) = output_effect(&bl.callee) {
                if what == "print to stdout" || what == "stdout handle" {
                    ctx.violate("C20.cli", &format!("cli-writes-stdout:{}", c08::owner_of(&b.path)), &b.file, bl.line,
                        &format!("`{}` of the command-line tool writes to standard output itself (`{}`): with --stdout that text is mixed into the delivered bindings, which then differ from what compile_to_string() returns (diagnostics belong on stderr)", c08::owner_of(&b.path), bl.callee));
                }
            }
        }
    }
    ctx.oblige_n("C20.cli/calls-in-binary-crate", n);
    ctx.oblige("C20.cli", "no-stdout-in-cli", true);
}


/// C20.cli:walk — "(CLI) directories searched recursively for .asn/.asn1": the statements of `main` up to and including the
/// directory walk are evaluated on a modelled walk (WalkDir yields, in order, directories, module files, other files, an entry
/// it cannot inspect, a *directory* whose name ends in .asn with a module inside). The sources handed on must be exactly the
/// regular files named *.asn / *.asn1, in walk order, whatever else the walk meets: a module missing from the list is missing
/// from the CLI's bindings although the library compiles it; a directory in the list makes the CLI fail where the library,
/// given the files, succeeds.
fn cli_walk(m: &Model, ctx: &mut Ctx, f: &crate::model::FnInfo) {
    ctx.oblige("C20.cli", "module-files", true);
    // the statement that contains the walk
    let pos = f.block.stmts.iter().position(|s| tok(s).contains("WalkDir"));
    let Some(pos) = pos else {
        ctx.fail_closed("C20.cli", "main: no statement walks a directory (WalkDir)");
        return;
    };
    let prefix = syn::Block { brace_token: f.block.brace_token, stmts: f.block.stmts[..=pos].to_vec() };
    let entry = |path: &str, kind: &str| -> Val {
        let mut fm = BTreeMap::new();
        fm.insert("path".to_string(), Val::Str(path.into()));
        fm.insert("kind".to_string(), Val::Str(kind.into()));
        Val::Ctor("Ok".into(), vec![Val::Ctor("DirEntry".into(), vec![], fm)], BTreeMap::new())
    };
    let walk = vec![
        entry("d", "dir"),
        entry("d/a", "dir"),
        entry("d/a/A.asn", "file"),
        Val::Ctor("Err".into(), vec![Val::Str("IO error for operation on d/a/stale: No such file or directory".into())], BTreeMap::new()),
        entry("d/b", "dir"),
        entry("d/b/B.asn1", "file"),
        entry("d/b/notes.txt", "file"),
        entry("d/b/asn", "file"),
        entry("d/b/a.asn.bak", "file"),
        entry("d/b/a.asn2", "file"),
        entry("d/b/README", "file"),
        entry("d/sub.asn", "dir"),
        entry("d/sub.asn/C.asn", "file"),
        entry("d/sub.asn/Common.v1.asn", "file"),
        entry("d/sub.asn/X.680.asn1", "file"),
        entry("d/sub.asn/itu-t_x_x501_2019_SelectedAttributeTypes.asn", "file"),
        // a module reached through a symbolic link: a regular file to a walk that follows links
        entry("d/linked/L.asn", "link-to-file"),
    ];
    let want = vec!["d/a/A.asn", "d/b/B.asn1", "d/sub.asn/C.asn", "d/sub.asn/Common.v1.asn", "d/sub.asn/X.680.asn1", "d/sub.asn/itu-t_x_x501_2019_SelectedAttributeTypes.asn", "d/linked/L.asn"];
    let kind_of = |v: &Val| -> Option<String> { match v { Val::Ctor(n, _, fm) if n == "DirEntry" || n == "$path" => match fm.get("kind") { Some(Val::Str(k)) => Some(k.clone()), _ => None }, _ => None } };
    let path_of = |v: &Val| -> Option<String> { match v { Val::Ctor(n, _, fm) if n == "DirEntry" || n == "$path" => match fm.get("path") { Some(Val::Str(k)) => Some(k.clone()), _ => None }, _ => None } };
    let walk2 = walk.clone();
    let hook = move |_: &Evaluator, name: &str, a: &[Val]| -> Option<Result<Val, String>> {
        let last = |p: &str| p.rsplit('/').next().unwrap_or(p).to_string();
        match name {
            "CompilerArgs::parse" | "parse" if a.is_empty() => {
                let mut src = BTreeMap::new();
                src.insert("module_files".to_string(), Val::List(vec![]));
                src.insert("directory".to_string(), Val::some(Val::Str("d".into())));
                let mut fm = BTreeMap::new();
                fm.insert("source".to_string(), Val::Ctor("SourceArgs".into(), vec![], src));
                fm.insert("output".to_string(), Val::Opaque("output flags".into()));
                fm.insert("backend".to_string(), Val::ctor("Rasn"));
                Some(Ok(Val::Ctor("CompilerArgs".into(), vec![], fm)))
            }
            "WalkDir::new" if a.len() == 1 => Some(Ok(Val::List(walk2.clone()))),
            // the walk follows links and descends without a depth limit: builder calls that keep it so
            // follow_links(true): what a link points to is what the entry is; follow_links(false): the entry is a symbolic link
            ".follow_links" if matches!(a.first(), Some(Val::List(_))) => {
                let follow = matches!(a.get(1), Some(Val::Bool(true)));
                let Val::List(l) = &a[0] else { return None };
                Some(Ok(Val::List(l.iter().map(|e| match e {
                    Val::Ctor(ok, p, x) if ok == "Ok" => match p.first() {
                        Some(Val::Ctor(n, q, fm)) if fm.get("kind") == Some(&Val::Str("link-to-file".into())) => {
                            let mut fm2 = fm.clone();
                            fm2.insert("kind".to_string(), Val::Str(if follow { "file" } else { "symlink" }.into()));
                            Val::Ctor(ok.clone(), vec![Val::Ctor(n.clone(), q.clone(), fm2)], x.clone())
                        }
                        _ => e.clone(),
                    },
                    _ => e.clone(),
                }).collect())))
            }
            ".same_file_system" | ".sort_by_file_name" | ".contents_first" if matches!(a.first(), Some(Val::List(_))) => Some(Ok(a[0].clone())),
            ".max_depth" | ".min_depth" if matches!(a.first(), Some(Val::List(_))) => Some(Err("the walk is limited in depth: the search is documented as recursive".into())),
            ".file_name" if a.len() == 1 => path_of(&a[0]).map(|p| Ok(Val::Str(last(&p)))),
            ".path" | ".into_path" | ".to_path_buf" if a.len() == 1 && matches!(&a[0], Val::Ctor(n, ..) if n == "DirEntry" || n == "$path") => {
                let Val::Ctor(_, _, fm) = &a[0] else { return None };
                Some(Ok(Val::Ctor("$path".into(), vec![], fm.clone())))
            }
            ".file_type" | ".metadata" if a.len() == 1 => kind_of(&a[0]).map(|k| {
                let mut fm = BTreeMap::new();
                fm.insert("kind".to_string(), Val::Str(k));
                Ok(Val::Ctor("FileType".into(), vec![], fm))
            }),
            ".is_file" | ".is_dir" | ".is_symlink" if a.len() == 1 => match &a[0] {
                Val::Ctor(n, _, fm) if n == "FileType" || n == "DirEntry" || n == "$path" => match fm.get("kind") {
                    Some(Val::Str(k)) => Some(Ok(Val::Bool(match name { ".is_file" => k == "file", ".is_dir" => k == "dir", _ => false }))),
                    _ => None,
                },
                _ => None,
            },
            ".extension" if a.len() == 1 => path_of(&a[0]).map(|p| { let l = last(&p); Ok(match l.rsplit_once('.') { Some((stem, e)) if !stem.is_empty() => Val::some(Val::Str(e.to_string())), _ => Val::none() }) }),
            ".to_string_lossy" | ".to_str" | ".to_os_string" | ".as_os_str" | ".display" | ".into_owned" | ".as_ref" | ".deref" | ".as_str" | ".as_path" if a.len() == 1 => {
                let v = match &a[0] { Val::Ctor(n, ..) if n == "$path" => Val::Str(path_of(&a[0]).unwrap_or_default()), o => o.clone() };
                Some(Ok(if name == ".to_str" { Val::some(v) } else { v }))
            }
            "eprintln!" | "println!" | "eprint!" | "print!" => Some(Ok(Val::Unit)),
            ".yellow" | ".blue" | ".red" | ".green" | ".bold" if a.len() == 1 => Some(Ok(a[0].clone())),
            _ => None,
        }
    };
    let consts = const_resolver(m);
    let mut inl: BTreeMap<String, (Vec<String>, syn::Block)> = BTreeMap::new();
    for g in m.fns.iter().filter(|g| g.module == f.module && g.self_ty.is_none() && g.name != "main") {
        let ps: Vec<String> = g.sig.inputs.iter().filter_map(|a| match a { syn::FnArg::Typed(t) => Some(tok(&t.pat).replace("mut ", "")), _ => None }).collect();
        inl.insert(g.name.clone(), (ps, g.block.clone()));
    }
    let ev = Evaluator { consts: &consts, call_hook: &hook, inline: Some(&inl) };
    let mut env = Env::new();
    match ev.eval_block(&prefix, &mut env) {
        Err(e) => ctx.fail_closed("C20.cli", &format!("[main, directory walk]: {}", e)),
        Ok(r) => {
            if matches!(&r, Val::Ctor(n, _, _) if n == "$return") {
                ctx.violate("C20.cli", "walk:returns-early", &f.file, span_line(&f.block.stmts[pos]), "main returns while walking a directory that holds three modules");
                return;
            }
            // the list of sources: the local that received the module files of the command line
            let lists: Vec<(String, Vec<String>)> = env.iter().filter_map(|(k, v)| match v {
                Val::List(items) if !k.starts_with('$') => Some((k.clone(), items.iter().map(|i| path_of(i).unwrap_or_else(|| i.show())).collect())),
                _ => None,
            }).collect();
            if lists.len() != 1 {
                ctx.fail_closed("C20.cli", &format!("[main, directory walk]: {} list-valued locals after the walk ({:?}); expected the one list of sources", lists.len(), lists.iter().map(|l| &l.0).collect::<Vec<_>>()));
                return;
            }
            let got = &lists[0].1;
            let line = span_line(&f.block.stmts[pos]);
            for w in &want {
                if !got.iter().any(|g| g == w) {
                    ctx.violate("C20.cli", "module-files:module-skipped", &f.file, line, &format!("the directory search of the CLI hands on {:?} for a directory holding the modules {:?} (and an entry it cannot inspect, other files, a directory named sub.asn): `{}` is missing from the CLI's bindings although the library compiles it when given the same paths", got, want, w));
                }
            }
            for g in got {
                if !want.contains(&g.as_str()) {
                    ctx.violate("C20.cli", "module-files:other-file-taken", &f.file, line, &format!("the directory search of the CLI hands `{}` to the compiler as a source: it is no regular file named *.asn / *.asn1 — reading it fails (Is a directory) and the CLI exits with an error where the library, given the module files {:?}, succeeds", g, want));
                }
            }
            // between the walk and the call of the library nothing may leave `main` when sources were found: the statements up
            // to the one that compiles are evaluated one by one (a local that cannot be evaluated is bound to an opaque value)
            for st in f.block.stmts.iter().skip(pos + 1) {
                if tok(st).contains(".compile()") {
                    break;
                }
                let one = syn::Block { brace_token: f.block.brace_token, stmts: vec![st.clone()] };
                match ev.eval_block(&one, &mut env) {
                    Ok(Val::Ctor(n, p, _)) if n == "$return" => {
                        ctx.violate("C20.cli", "module-files:exits-before-compiling", &f.file, span_line(st), &format!("with {} module file(s) found, `main` returns {} before the library is called: the CLI fails where the library, given the same files, compiles them", got.len(), p.first().map(|v| v.show()).unwrap_or_default()));
                        return;
                    }
                    Ok(_) => {}
                    Err(_) => {
                        if let syn::Stmt::Local(l) = st {
                            env.insert(tok(&l.pat).trim_start_matches("mut ").to_string(), Val::Opaque("local".into()));
                        }
                    }
                }
            }
            let order: Vec<&String> = got.iter().filter(|g| want.contains(&g.as_str())).collect();
            if order.len() == want.len() && order.iter().zip(want.iter()).any(|(a, b)| a.as_str() != *b) {
                ctx.violate("C20.cli", "walk:order", &f.file, line, &format!("the sources are handed on as {:?}, not in walk order {:?}", got, want));
            }
        }
    }
}
