//! C15 — permitted-alphabet annotations denote exactly the FROM constraint (table clauses).
use crate::eval::{Env, Evaluator, Val};
use crate::model::{self, tok, Model};
use crate::report::Ctx;
use crate::rules::util::*;
use serde_json::{json, Value};
use std::collections::BTreeMap;

#[derive(Debug, Clone)]
enum Table {
    Chars(Vec<char>),
    Range(u32, u32), // inclusive
    /// evaluated initialiser whose keys are not the positions 0, 1, 2, ..: (first offending key, its position)
    Keyed(Vec<char>, usize, usize),
}

/// Any other initialiser is evaluated: it must yield (index, character) pairs
fn table_by_evaluation(ev: &Evaluator, body: &syn::Expr) -> Result<Table, String> {
    let v = ev.eval(body, &mut Env::new())?;
    let Val::List(items) = v else { return Err(format!("the initialiser evaluates to {}", v.show().chars().take(60).collect::<String>())) };
    let mut chars = vec![];
    let mut bad: Option<(usize, usize)> = None;
    for (pos, it) in items.iter().enumerate() {
        match it {
            Val::Tuple(t) if t.len() == 2 => match (&t[0], &t[1]) {
                (Val::Int { v: k, .. }, Val::Char(c)) => {
                    if *k != pos as i128 && bad.is_none() {
                        bad = Some((*k as usize, pos));
                    }
                    chars.push(*c);
                }
                (a, b) => return Err(format!("table entry ({}, {})", a.show(), b.show())),
            },
            o => return Err(format!("table entry {}", o.show())),
        }
    }
    Ok(match bad { Some((k, p)) => Table::Keyed(chars, k, p), None => Table::Chars(chars) })
}

fn eval_u32(ev: &Evaluator, e: &syn::Expr) -> Option<i128> {
    // literals with suffixes parse through base10_parse
    match ev.eval(e, &mut Env::new()) {
        Ok(Val::Int { v, .. }) => Some(v),
        _ => None,
    }
}

/// `[..chars..].into_iter().enumerate().collect()` or `(a..b | a..=b).filter_map(char::from_u32).enumerate().collect()`
fn table_of(ev: &Evaluator, e: &syn::Expr) -> Result<Table, String> {
    // strip LazyLock::new(|| BODY)
    let mut cur: &syn::Expr = e;
    if let syn::Expr::Call(c) = cur {
        if tok(&c.func).ends_with("LazyLock::new") {
            if let Some(syn::Expr::Closure(cl)) = c.args.first() {
                cur = &cl.body;
            }
        }
    }
    if let syn::Expr::Block(b) = cur {
        if b.block.stmts.len() == 1 {
            if let syn::Stmt::Expr(x, None) = &b.block.stmts[0] {
                cur = x;
            }
        }
    }
    // walk the method chain down to its root, remembering the adaptor names
    let mut chain = vec![];
    let mut root = cur;
    while let syn::Expr::MethodCall(mc) = root {
        chain.push((mc.method.to_string(), mc.args.iter().map(|a| tok(a)).collect::<Vec<_>>()));
        root = &mc.receiver;
    }
    chain.reverse();
    let names: Vec<&str> = chain.iter().map(|(n, _)| n.as_str()).collect();
    match root {
        syn::Expr::Array(a) => {
            if names != ["into_iter", "enumerate", "collect"] {
                return table_by_evaluation(ev, cur).map_err(|e| format!("adaptor chain {:?} on a literal table: {}", names, e));
            }
            let mut v = vec![];
            for x in a.elems.iter() {
                match x {
                    syn::Expr::Lit(l) => match &l.lit {
                        syn::Lit::Char(c) => v.push(c.value()),
                        _ => return Err("non-char element".into()),
                    },
                    _ => return Err("non-literal element".into()),
                }
            }
            Ok(Table::Chars(v))
        }
        syn::Expr::Paren(p) => match &*p.expr {
            syn::Expr::Range(r) => {
                if names != ["filter_map", "enumerate", "collect"] || chain[0].1 != vec!["char::from_u32".to_string()] {
                    return table_by_evaluation(ev, cur).map_err(|e| format!("adaptor chain {:?} on a code-point range: {}", names, e));
                }
                let lo = r.start.as_ref().and_then(|e| eval_u32(ev, e)).ok_or("range start")?;
                let hi = r.end.as_ref().and_then(|e| eval_u32(ev, e)).ok_or("range end")?;
                let hi = if matches!(r.limits, syn::RangeLimits::Closed(_)) { hi } else { hi - 1 };
                Ok(Table::Range(lo as u32, hi as u32))
            }
            _ => Err("unsupported table root".into()),
        },
        _ => Err(format!("unsupported table initialiser `{}`", tok(root).chars().take(60).collect::<String>())),
    }
}

/// C15.index: a character of a FROM constraint is located in the base type's character set by `find_char_index` /
/// `find_string_index`; ranges are then rebuilt from the *indices*. The two functions are evaluated themselves (elsewhere
/// they are stubbed) on character sets in which the index is not the code point — the set of BMPString / UniversalString
/// skips the 2048 surrogates, NumericString starts at SPACE: the answer is the position of the character in the set, and
/// a character that is not in the set is an error.
fn char_index(m: &Model, ctx: &mut Ctx) {
    let rule = "C15.index";
    let consts = const_resolver(m);
    let inl = inline_all(m, &[]);
    let ev = Evaluator { consts: &consts, call_hook: &crate::eval::no_hook, inline: Some(&inl) };
    // (label, set as (index, char) pairs in index order)
    let sets: Vec<(&str, Vec<char>)> = vec![
        ("starts-at-NUL-with-a-gap", vec!['\0', 'a', 'c', 'z', '\u{E000}']),
        ("starts-at-SPACE", vec![' ', '0', '1', '2']),
        ("single", vec!['x']),
    ];
    for fname in ["find_char_index", "find_string_index"] {
        let Ok(f) = m.find_fn(None, fname, None) else {
            ctx.fail_closed(rule, &format!("anchor not found: {}", fname));
            continue;
        };
        ctx.func(&f.key);
        let params: Vec<(String, String)> = f.sig.inputs.iter().filter_map(|a| match a { syn::FnArg::Typed(t) => Some((tok(&t.pat), tok(&t.ty))), _ => None }).collect();
        for (label, set) in &sets {
            let pairs = Val::List(set.iter().enumerate().map(|(i, c)| Val::Tuple(vec![Val::int(i as i128), Val::Char(*c)])).collect());
            let mut probes: Vec<(char, Option<usize>)> = set.iter().enumerate().map(|(i, c)| (*c, Some(i))).collect();
            probes.push(('b', None));
            probes.push(('\u{FFFD}', None));
            for (c, want) in probes {
                ctx.oblige(rule, &format!("{}:{}:{:?}", fname, label, c), true);
                let mut env = Env::new();
                for (pn, pt) in &params {
                    env.insert(pn.clone(), if pt.contains("BTreeMap") { pairs.clone() } else if pt.contains("char") { Val::Char(c) } else { Val::Str(c.to_string()) });
                }
                let got = match ev.eval_fn_body(&f.block, &mut env) {
                    Ok(Val::Ctor(ok, p, _)) if ok == "Ok" => match p.first() { Some(Val::Int { v, .. }) => Ok(Some(*v as usize)), o => Err(format!("Ok({})", o.map(|v| v.show()).unwrap_or_default())) },
                    Ok(Val::Ctor(e, _, _)) if e == "Err" => Ok(None),
                    Ok(o) => Err(o.show().chars().take(80).collect()),
                    Err(e) => Err(e),
                };
                match got {
                    Ok(g) if g == want => {}
                    Ok(g) => ctx.violate(rule, &format!("{}:wrong-index", fname), &f.file, f.line,
                        &format!("{} on the character {:?} in the set {:?} (index = position): answers {:?}, the position is {:?} — a range bound is rebuilt from the index, so `FROM (\"\\u{{E000}}\"..\"\\u{{E0FF}}\")` on a BMPString (whose set skips the surrogates) would come out shifted or open", fname, c, set, g, want)),
                    Err(e) => ctx.fail_closed(rule, &format!("[{} {} {:?}]: {}", fname, label, c, e)),
                }
            }
        }
    }
}

/// The character tables of character_set() are keyed by position (0, 1, 2, .. without holes): `for i in lower..=upper {
/// chars.get(&i).unwrap() }` in union_single_and_range is audited benign on that ground (shared with C08 as C08.charset).
pub fn charset_keys(m: &Model, ctx: &mut Ctx, rule: &str) {
    let Some(f) = m.fns.iter().find(|f| f.name == "character_set" && f.self_ty.as_deref() == Some("CharacterStringType")) else {
        ctx.fail_closed(rule, "anchor not found: CharacterStringType::character_set");
        return;
    };
    let consts = const_resolver(m);
    let ev = Evaluator { consts: &consts, call_hook: &crate::eval::no_hook, inline: None };
    let mut n = 0;
    for st in m.consts.iter().filter(|c| c.is_static && c.in_fn.as_deref() == Some(f.key.as_str())) {
        n += 1;
        ctx.oblige(rule, &format!("table-keys:{}", st.name), true);
        match table_of(&ev, &st.expr) {
            Ok(Table::Keyed(_, key, pos)) => ctx.violate(rule, &format!("table-keys:{}", st.name), &st.file, st.line,
                &format!("the character table {} is not keyed by position (entry {} has the key {}): union_single_and_range walks `for i in lower..=upper {{ chars.get(&i).unwrap() }}` and panics on the first hole — `BMPString (FROM (\"a\") | FROM (\"\\u{{D7FB}}\"..\"\\u{{E000}}\"))`", st.name, pos, key)),
            Ok(_) => {}
            Err(e) => ctx.fail_closed(rule, &format!("[{}]: {}", st.name, e)),
        }
    }
    ctx.floor(&format!("{}/tables", rule), n, 5);
}

pub fn run(m: &Model, ctx: &mut Ctx) {
    ctx.explanation = "C15.sets/C15.order: the character table of each known-multiplier string type (reached through the CharacterStringType -> static match in character_set()) is evaluated from its initialiser \
(char array literal, or code-point range filtered through char::from_u32) and must equal the normative alphabet of X.680 §41 in canonical (ascending code point) order — ranges, `lower > upper` tests and open ends are all computed on table indices, so both the set and the order are necessary for FROM ranges to denote the ASN.1 set. \
C15.km: both places that decide `known-multiplier` (PerVisibleAlphabetConstraints::try_new and the component formatter) list exactly the X.691 §30.1 types; every other string type gets no alphabet. \
C15.range: the (min, max) -> (lower, upper) index table of FROM ranges (open ends = first/last index, inclusive upper end); C15.render: singletons and inclusive `..=` ranges, sorted by first character before rendering. \
Not decided: the folding of FROM set expressions (unions/intersections) and serial FROM constraints.".into();
    ctx.assumptions = vec!["ref/x680_charsets.json transcribes X.680 §41 tables 9/10 and the ISO 646 / ISO 10646 ranges".into(), "rasn's from(..) annotation takes inclusive unicode ranges".into()];
    ctx.rule("table extraction from static initialisers compared cell by cell with the normative alphabets; exhaustive CharacterStringType tables");

    let reference: Value = match std::fs::read_to_string(ctx.verif.join("ref/x680_charsets.json")).ok().and_then(|s| serde_json::from_str(&s).ok()) {
        Some(v) => v,
        None => {
            ctx.fail_closed("C15.sets", "ref/x680_charsets.json missing");
            return;
        }
    };
    let consts = const_resolver(m);
    let ev = Evaluator { consts: &consts, call_hook: &crate::eval::no_hook, inline: None };
    let variants = m.find_enum("CharacterStringType").map(|e| e.variants.clone()).unwrap_or_default();
    ctx.floor("C15/CharacterStringType-variants", variants.len(), 11);
    let km: Vec<String> = reference["known_multiplier"].as_array().cloned().unwrap_or_default().iter().filter_map(|v| v.as_str().map(|s| s.to_string())).collect();

    // ---- character_set(): type -> static -> table ----
    char_index(m, ctx);
    if let Some(f) = anchor_fn(m, ctx, "C15.sets", Some("CharacterStringType"), "character_set", None) {
        let statics: BTreeMap<String, &crate::model::ConstInfo> = m.consts.iter().filter(|c| c.is_static && c.in_fn.as_deref() == Some(f.key.as_str())).map(|c| (c.name.clone(), c)).collect();
        ctx.floor("C15.sets/tables", statics.len(), 5);
        let mt = model::matches_in(&f.block).into_iter().find(|mt| tok(&mt.expr) == "self");
        let Some(mt) = mt else {
            ctx.fail_closed("C15.sets", "character_set(): no match over self");
            return;
        };
        for ty in &km {
            ctx.oblige("C15.sets", ty, true);
            let (i, _) = match ev.select_arm(&mt, &Val::ctor(ty), &Env::new()) {
                Ok(x) => x,
                Err(e) => {
                    ctx.fail_closed("C15.sets", &e);
                    continue;
                }
            };
            let sname = tok(&mt.arms[i].body).trim_start_matches('&').to_string();
            let Some(st) = statics.get(&sname) else {
                ctx.fail_closed("C15.sets", &format!("{}: table `{}` not found", ty, sname));
                continue;
            };
            let table = match table_of(&ev, &st.expr) {
                Ok(t) => t,
                Err(e) => {
                    ctx.fail_closed("C15.sets", &format!("{} ({}): {}", ty, sname, e));
                    continue;
                }
            };
            let want = &reference["sets"][ty];
            match (&table, want.get("chars"), want.get("range")) {
                (Table::Chars(v), Some(chars), _) => {
                    let want_chars: Vec<char> = chars.as_array().unwrap().iter().filter_map(|c| c.as_str().and_then(|s| s.chars().next())).collect();
                    let mut got_sorted = v.clone();
                    got_sorted.sort();
                    got_sorted.dedup();
                    let mut ws = want_chars.clone();
                    ws.sort();
                    if got_sorted != ws || got_sorted.len() != v.len() {
                        let missing: String = ws.iter().filter(|c| !v.contains(c)).collect();
                        let extra: String = v.iter().filter(|c| !ws.contains(c)).collect();
                        ctx.violate("C15.sets", &format!("{}:set", ty), &st.file, st.line,
                            &format!("the {} table ({}) is not the X.680 alphabet: missing {:?}, extra {:?}, {} duplicates", ty, sname, missing, extra, v.len() - got_sorted.len()));
                    }
                    ctx.oblige("C15.order", ty, true);
                    if !v.windows(2).all(|w| w[0] < w[1]) {
                        let first_bad = v.windows(2).find(|w| w[0] >= w[1]).map(|w| format!("{:?} before {:?}", w[0], w[1])).unwrap_or_default();
                        ctx.violate("C15.order", &format!("{}:not-in-code-point-order", ty), &st.file, st.line,
                            &format!("the {} table ({}) is not in canonical (code point) order ({}): FROM ranges are computed on table indices, so a range that crosses the mis-ordered part denotes the wrong set or is rejected", ty, sname, first_bad));
                    }
                    ctx.sample(json!({"type": ty, "table": sname, "size": v.len()}));
                }
                (Table::Range(lo, hi), _, Some(r)) => {
                    let wl = r[0].as_u64().unwrap() as u32;
                    let wh = r[1].as_u64().unwrap() as u32;
                    if *lo != wl || *hi != wh {
                        ctx.violate("C15.sets", &format!("{}:range", ty), &st.file, st.line,
                            &format!("the {} table ({}) covers U+{:04X}..=U+{:04X}; the type's alphabet is U+{:04X}..=U+{:04X}: characters outside the table cannot appear in a FROM constraint of this type", ty, sname, lo, hi, wl, wh));
                    }
                    ctx.oblige("C15.order", ty, false);
                    ctx.sample(json!({"type": ty, "table": sname, "range": [lo, hi]}));
                }
                (Table::Range(lo, hi), Some(chars), _) => {
                    let want_chars: Vec<u32> = chars.as_array().unwrap().iter().filter_map(|c| c.as_str().and_then(|s| s.chars().next())).map(|c| c as u32).collect();
                    let contiguous = want_chars.windows(2).all(|w| w[1] == w[0] + 1);
                    if !(contiguous && want_chars.first() == Some(lo) && want_chars.last() == Some(hi)) {
                        ctx.violate("C15.sets", &format!("{}:set", ty), &st.file, st.line, &format!("the {} table ({}) is the range U+{:04X}..=U+{:04X}, not the X.680 alphabet", ty, sname, lo, hi));
                    }
                }
                (Table::Chars(v), _, Some(r)) => {
                    let wl = r[0].as_u64().unwrap() as u32;
                    let wh = r[1].as_u64().unwrap() as u32;
                    // (the code points that are no characters — the surrogates — are not in any table)
                    let want_v: Vec<char> = (wl..=wh).filter_map(char::from_u32).collect();
                    let ok = *v == want_v;
                    if !ok {
                        ctx.violate("C15.sets", &format!("{}:set", ty), &st.file, st.line, &format!("the {} table ({}) is not U+{:04X}..=U+{:04X} in order", ty, sname, wl, wh));
                    }
                }
                (Table::Keyed(_, key, pos), _, _) => {
                    ctx.violate("C15.sets", &format!("{}:index-not-position", ty), &st.file, st.line,
                        &format!("the {} table ({}) is keyed by something else than the position in the table (entry {} has the key {}): ranges of a FROM constraint are rebuilt by walking the keys lower..=upper, open ends use 0 and len() - 1 — a table with holes in its keys gives shifted or truncated alphabets, and `chars.get(&i).unwrap()` in union_single_and_range panics on a hole", ty, sname, pos, key));
                }
                _ => ctx.fail_closed("C15.sets", &format!("{}: reference entry malformed", ty)),
            }
        }
    }

    // ---- known-multiplier lists ----
    let mut km_sites = 0;
    for f in m.fns.iter() {
        for mt in model::matches_in(&f.block) {
            let scrut = tok(&mt.expr);
            if !(scrut == "string_type" || scrut.ends_with(".ty")) {
                continue;
            }
            // a two-way decision over the string type: an or-pattern of CharacterStringType paths and a wildcard arm, one side
            // of which yields "no alphabet / no annotation" — whichever side is spelled out (allow-list or deny-list)
            let has_list = mt.arms.iter().any(|a| { let p = tok(&a.pat); p.contains("CharacterStringType::") && p.contains('|') });
            if !(has_list && mt.arms.iter().any(|a| tok(&a.pat) == "_")) {
                continue;
            }
            let rejects = |a: &syn::Arm| -> bool {
                let b = tok(&a.body);
                let b = b.trim_start_matches('{').trim_end_matches('}').trim_end_matches(';');
                matches!(b, "return Ok(None)" | "Ok(None)" | "None" | "return None" | "TokenStream::new()" | "false" | "quote!()")
            };
            let n_reject = mt.arms.iter().filter(|a| rejects(a)).count();
            if n_reject == 0 || n_reject == mt.arms.len() {
                ctx.fail_closed("C15.km", &format!("{}: cannot tell which arm of the string-type decision means `no alphabet` (arm bodies: {:?})", f.name, mt.arms.iter().map(|a| tok(&a.body)).collect::<Vec<_>>()));
                continue;
            }
            km_sites += 1;
            ctx.func(&f.key);
            for v in &variants {
                ctx.oblige("C15.km", &format!("{}:{}", f.name, v), true);
                match ev.select_arm(&mt, &Val::ctor(v), &Env::new()) {
                    Ok((i, _)) => {
                        let in_list = !rejects(&mt.arms[i]);
                        let want = km.contains(v);
                        if in_list != want {
                            ctx.violate("C15.km", &format!("{}:{}", f.name, v), &f.file, span_line(&mt),
                                &format!("{}: {} is {} as a known-multiplier character string type; X.691 §30.1 lists exactly {:?}", f.name, v, if in_list { "treated" } else { "not treated" }, km));
                        }
                    }
                    Err(e) => ctx.fail_closed("C15.km", &e),
                }
            }
        }
    }
    ctx.floor("C15.km/sites", km_sites, 2);

    // ---- FROM range -> index table ----
    if let Some(f) = anchor_fn(m, ctx, "C15.range", Some("PerVisibleAlphabetConstraints"), "from_subtype_elem", None) {
        let mt = model::matches_in(&f.block).into_iter().find(|mt| tok(&mt.expr) == "(min,max)");
        match mt {
            None => ctx.fail_closed("C15.range", "from_subtype_elem: no match over (min, max)"),
            Some(mt) => {
                let hook = |_: &Evaluator, name: &str, args: &[Val]| -> Option<Result<Val, String>> {
                    if name == "find_string_index" {
                        return Some(Ok(Val::Ctor("Ok".into(), vec![match args.first() {
                            Some(Val::Str(s)) if s == "lo" => Val::int(3),
                            Some(Val::Str(s)) if s == "hi" => Val::int(7),
                            _ => Val::int(99),
                        }], BTreeMap::new())));
                    }
                    if name == ".len" {
                        return Some(Ok(Val::int(10)));
                    }
                    None
                };
                let ev2 = Evaluator { consts: &consts, call_hook: &hook, inline: None };
                let s = |x: &str| Val::some(Val::Ctor("String".into(), vec![Val::Str(x.into())], BTreeMap::new()));
                for (lo, hi, want) in [(s("lo"), s("hi"), (3, 7)), (Val::none(), s("hi"), (0, 7)), (s("lo"), Val::none(), (3, 9)), (Val::none(), Val::none(), (0, 9))] {
                    let key = format!("min={} max={}", lo.show(), hi.show());
                    ctx.oblige("C15.range", &key, true);
                    let v = Val::Tuple(vec![lo.clone(), hi.clone()]);
                    let mut env = Env::new();
                    env.insert("char_set".into(), Val::Opaque("char_set".into()));
                    match ev2.select_arm(&mt, &v, &env) {
                        Ok((i, mut e2)) => {
                            // `?` on Ok(..): Expr::Try
                            match ev2.eval(&mt.arms[i].body, &mut e2) {
                                Ok(Val::Tuple(t)) => {
                                    let g = |v: &Val| match v { Val::Int { v, .. } => *v, Val::Ctor(n, p, _) if n == "Ok" => match &p[0] { Val::Int { v, .. } => *v, _ => -1 }, _ => -1 };
                                    let got = (g(&t[0]), g(&t[1]));
                                    if got != (want.0 as i128, want.1 as i128) {
                                        ctx.violate("C15.range", &key, &f.file, span_line(&mt.arms[i]),
                                            &format!("FROM range [{}]: index bounds {:?}, expected {:?} (absent lower end = first character, absent upper end = last character, of a 10-character alphabet with lo at 3 and hi at 7)", key, got, want));
                                    }
                                }
                                Ok(o) => ctx.fail_closed("C15.range", &format!("[{}]: {}", key, o.show())),
                                Err(e) => ctx.fail_closed("C15.range", &format!("[{}]: {}", key, e)),
                            }
                        }
                        Err(e) => ctx.fail_closed("C15.range", &e),
                    }
                }
            }
        }
        let b = tok(&f.block);
        ctx.oblige("C15.range", "inclusive-upper-end", true);
        if !b.contains("(lower..=upper).contains(i)") {
            ctx.violate("C15.range", "inclusive-upper-end", &f.file, f.line, "a FROM range includes both end points: the index filter must be (lower..=upper).contains(i)");
        }
        ctx.oblige("C15.range", "endpoints-rendered-from-same-indices", true);
        if !(b.contains("from:char_set.get(&lower).copied()") && b.contains("to:char_set.get(&upper).copied()")) {
            ctx.violate("C15.range", "endpoints-rendered-from-same-indices", &f.file, f.line, "the rendered range end points must be the table characters at `lower` and `upper`");
        }
        ctx.oblige("C15.range", "single-value-chars", true);
        if !b.contains("charset_subsets:s.chars().map(CharsetSubset::Single).collect()") {
            ctx.violate("C15.range", "single-value-chars", &f.file, f.line, "a FROM string contributes each of its characters as a singleton");
        }
    }


    // ---- the subset list only grows ----
    // `charset_subsets` is the denotation of the alphabet: from construction to rendering it may be appended to and
    // reordered, never shrunk (a union of FROM operands is the concatenation of their subsets).
    {
        let growing = ["push", "extend", "append", "extend_from_slice", "sort", "sort_by", "sort_by_key", "sort_unstable", "sort_unstable_by", "sort_unstable_by_key", "dedup"];
        let readonly = ["iter", "len", "is_empty", "clone", "first", "last", "contains", "as_slice", "get", "to_vec", "as_ref"];
        let mut sites = 0;
        for f in m.fns.iter().filter(|f| f.krate == "rasn-compiler" && !f.module.contains("tests")) {
            for mc in model::method_calls_in(&f.block) {
                let r = tok(&mc.receiver);
                if !(r.ends_with(".charset_subsets") || r.ends_with(".charset_subsets()")) {
                    continue;
                }
                sites += 1;
                let name = mc.method.to_string();
                ctx.oblige("C15.sets", &format!("subset-list:{}:{}", f.name, name), true);
                if !growing.contains(&name.as_str()) && !readonly.contains(&name.as_str()) {
                    ctx.violate("C15.sets", &format!("subset-list-shrinks:{}:{}", f.name, name), &f.file, span_line(&mc),
                        &format!("`{}.{}(..)` in `{}`: the list of permitted-alphabet subsets may only be appended to or sorted between parsing and rendering; an operation that can remove entries (here `{}`) makes the annotation denote fewer characters than the FROM constraint allows", r, name, f.name, name));
                }
            }
        }
        ctx.floor("C15.sets/subset-list-sites", sites, 3);
    }

    // ---- set operators ----
    ops(m, ctx);
    fold_union(m, ctx);
    // ---- references inside FROM are visited by the linker (shared with C09.sym) ----
    crate::rules::c09::constraint_pairs(m, ctx, "C15.link");

    // ---- rendering ----
    if let Some(f) = anchor_fn(m, ctx, "C15.render", Some("Rasn"), "format_alphabet_annotations", None) {
        let b = tok(&f.block);
        // the rendering closure (the one that matches on CharsetSubset) is evaluated on each subset shape
        struct C {
            out: Vec<syn::ExprClosure>,
        }
        impl model::DeepCb for C {
            fn expr(&mut self, e: &syn::Expr) {
                if let syn::Expr::Closure(c) = e {
                    if tok(&c.body).contains("CharsetSubset::Single") {
                        self.out.push(c.clone());
                    }
                }
            }
        }
        let mut c = C { out: vec![] };
        model::deep_walk_block(&f.block, &mut c);
        if c.out.len() != 1 {
            ctx.fail_closed("C15.render", "format_alphabet_annotations: rendering closure over CharsetSubset not found");
        } else {
            let consts = const_resolver(m);
            let hook = |_: &Evaluator, name: &str, args: &[Val]| -> Option<Result<Val, String>> {
                match (name, args.first()) {
                    (".escape_unicode", Some(Val::Char(ch))) => Some(Ok(Val::Str(ch.escape_unicode().to_string()))),
                    _ => None,
                }
            };
            let ev = Evaluator { consts: &consts, call_hook: &hook, inline: None };
            let clo = syn::Expr::Closure(c.out[0].clone());
            let range = |a: Option<char>, b: Option<char>| {
                let mut f = BTreeMap::new();
                f.insert("from".to_string(), a.map(|x| Val::some(Val::Char(x))).unwrap_or(Val::none()));
                f.insert("to".to_string(), b.map(|x| Val::some(Val::Char(x))).unwrap_or(Val::none()));
                Val::Ctor("Range".into(), vec![], f)
            };
            let cases: Vec<(&str, Val, &str)> = vec![
                ("singleton", Val::Ctor("Single".into(), vec![Val::Char('a')], BTreeMap::new()), "\"\\u{61}\""),
                ("singleton", Val::Ctor("Single".into(), vec![Val::Char('\u{10ffff}')], BTreeMap::new()), "\"\\u{10ffff}\""),
                ("inclusive-range", range(Some('a'), Some('f')), "\"\\u{61}..=\\u{66}\""),
                ("inclusive-range", range(Some('0'), Some('0')), "\"\\u{30}..=\\u{30}\""),
                ("from-then-to", range(Some('z'), Some('a')), "\"\\u{7a}..=\\u{61}\""),
            ];
            for (key, v, want) in cases {
                ctx.oblige("C15.render", &format!("{}:{}", key, v.show()), true);
                match ev.apply_closure(&clo, &[v.clone()], &Env::new()) {
                    Ok(Val::Str(sv)) => {
                        if sv != want {
                            ctx.violate("C15.render", key, &f.file, span_line(&c.out[0]), &format!("subset {} is rendered `{}`; the annotation syntax is `{}` (quoted unicode escapes, `from..=to` with both end points included, lower end first)", v.show(), sv, want));
                        }
                    }
                    Ok(o) => ctx.fail_closed("C15.render", &format!("[{}]: {}", key, o.show())),
                    Err(e) => ctx.fail_closed("C15.render", &format!("[{}]: {}", key, e)),
                }
            }
        }
        // between the subset list and the rendered text nothing may drop or reorder a subset
        ctx.oblige("C15.render", "every-subset-rendered", true);
        for mc in model::method_calls_in(&f.block) {
            let name = mc.method.to_string();
            if ["filter", "filter_map", "skip", "take", "step_by", "skip_while", "take_while", "dedup", "dedup_by", "dedup_by_key", "rev", "nth", "last", "find", "find_map"].contains(&name.as_str()) && tok(&mc.receiver).contains("charset_subsets()") {
                ctx.violate("C15.render", &format!("every-subset-rendered:{}", name), &f.file, span_line(&mc), &format!("`{}` is applied to the subset list on its way into the annotation: every subset must be rendered", name));
            }
        }
        ctx.oblige("C15.render", "finalize-before-render", true);
        let pfin = b.find("permitted_alphabet.finalize()");
        let pren = b.find("permitted_alphabet.charset_subsets()");
        if !matches!((pfin, pren), (Some(a), Some(c)) if a < c) {
            ctx.violate("C15.render", "finalize-before-render", &f.file, f.line, "the subsets must be sorted (finalize()) before they are rendered");
        }
    }
}

fn subset(v: &(char, char)) -> Val {
    if v.0 == v.1 {
        Val::Ctor("Single".into(), vec![Val::Char(v.0)], BTreeMap::new())
    } else {
        let mut f = BTreeMap::new();
        f.insert("from".to_string(), Val::some(Val::Char(v.0)));
        f.insert("to".to_string(), Val::some(Val::Char(v.1)));
        Val::Ctor("Range".into(), vec![], f)
    }
}

fn alphabet(ranges: &[(char, char)]) -> Val {
    let mut f = BTreeMap::new();
    f.insert("charset_subsets".to_string(), Val::List(ranges.iter().map(subset).collect()));
    f.insert("character_by_index".to_string(), Val::Opaque("character_by_index".into()));
    f.insert("index_by_character".to_string(), Val::none());
    f.insert("string_type".to_string(), Val::ctor("IA5String"));
    Val::Ctor("PerVisibleAlphabetConstraints".into(), vec![], f)
}

/// the set of characters (restricted to the probe universe) an abstract alphabet value denotes
fn denotation(v: &Val) -> Result<std::collections::BTreeSet<char>, String> {
    let Val::Ctor(_, _, f) = v else { return Err(format!("not an alphabet: {}", v.show())) };
    let Some(Val::List(l)) = f.get("charset_subsets") else { return Err("alphabet without charset_subsets list".into()) };
    let mut out = std::collections::BTreeSet::new();
    let ch = |v: Option<&Val>, dflt: char| -> Result<char, String> {
        match v {
            Some(Val::Ctor(s, p, _)) if s == "Some" => match p.first() { Some(Val::Char(c)) => Ok(*c), o => Err(format!("range end {:?}", o.map(|x| x.show()))) },
            Some(Val::Ctor(s, _, _)) if s == "None" => Ok(dflt),
            o => Err(format!("range end {:?}", o.map(|x| x.show()))),
        }
    };
    for s in l {
        match s {
            Val::Ctor(n, p, _) if n == "Single" => match p.first() { Some(Val::Char(c)) => { out.insert(*c); } o => return Err(format!("Single({:?})", o.map(|x| x.show()))) },
            Val::Ctor(n, _, f) if n == "Range" => {
                let (a, b) = (ch(f.get("from"), '\0')?, ch(f.get("to"), '\u{7f}')?);
                for c in ('\0'..='\u{7f}').filter(|c| *c >= a && *c <= b) {
                    out.insert(c);
                }
            }
            o => return Err(format!("subset {}", o.show())),
        }
    }
    Ok(out)
}

/// C15.fold: the union of a string with a character range inside one constraint (`SIZE (2) ^ FROM ("a" | "b".."d")` is folded
/// by fold_constraint_set, which hands string/range pairs to union_single_and_range). That fn is evaluated on pairs over a
/// small alphabet: the result denotes exactly the characters of the string plus the characters of the range, both ends
/// included, whether or not the union is contiguous.
fn fold_union(m: &Model, ctx: &mut Ctx) {
    use crate::eval::{new_set, Env};
    let Some(f) = m.fns.iter().find(|f| f.name == "union_single_and_range" && f.module.contains("per_visible")) else {
        ctx.fail_closed("C15.fold", "anchor not found: union_single_and_range");
        return;
    };
    ctx.func(&f.key);
    let consts = const_resolver(m);
    // the alphabet a..z with indices 0..25
    let idx = |c: char| (c as u8 - b'a') as i128;
    let hook = |_: &Evaluator, name: &str, a: &[Val]| -> Option<Result<Val, String>> {
        match name {
            "std::collections::BTreeSet::new" | "BTreeSet::new" | "BTreeSet::default" => Some(Ok(new_set())),
            "find_string_index" => match a.first() { Some(Val::Str(s)) => Some(Ok(Val::Ctor("Ok".into(), vec![Val::int(s.chars().next().map(|c| (c as u8 - b'a') as i128).unwrap_or(0))], BTreeMap::new()))), _ => None },
            "find_char_index" => match a.get(1) { Some(Val::Char(c)) => Some(Ok(Val::Ctor("Ok".into(), vec![Val::int((*c as u8 - b'a') as i128)], BTreeMap::new()))), _ => None },
            ".get" => match (a.first(), a.get(1)) {
                (Some(Val::Opaque(s)), Some(Val::Int { v, .. })) if s == "chars" && (0..26).contains(v) => Some(Ok(Val::some(Val::Char((b'a' + *v as u8) as char)))),
                (Some(Val::Opaque(s)), Some(_)) if s == "chars" => Some(Ok(Val::none())),
                _ => None,
            },
            _ => None,
        }
    };
    let ev = Evaluator { consts: &consts, call_hook: &hook, inline: None };
    let params: Vec<String> = f.sig.inputs.iter().filter_map(|a| match a { syn::FnArg::Typed(t) => Some(tok(&t.pat)), _ => None }).collect();
    if params.len() != 7 {
        ctx.fail_closed("C15.fold", "union_single_and_range: expected (value, min, char_set, max, x1, x2, range_constraint)");
        return;
    }
    let st = |s: &str| Val::Ctor("String".into(), vec![Val::Str(s.into())], BTreeMap::new());
    let _ = idx;
    for (single, lo, hi) in [("a", "b", "d"), ("d", "a", "c"), ("x", "a", "f"), ("ax", "c", "e"), ("c", "a", "b"), ("b", "a", "c"), ("", "a", "c"), ("a", "c", "c")] {
        let key = format!("\"{}\" | \"{}\"..\"{}\"", single, lo, hi);
        ctx.oblige("C15.fold", &key, true);
        let mut env = Env::new();
        env.insert(params[0].clone(), st(single));
        env.insert(params[1].clone(), Val::some(st(lo)));
        env.insert(params[2].clone(), Val::some(Val::Opaque("chars".into())));
        env.insert(params[3].clone(), Val::some(st(hi)));
        env.insert(params[4].clone(), Val::Bool(false));
        env.insert(params[5].clone(), Val::Bool(false));
        env.insert(params[6].clone(), Val::Bool(false));
        let want: std::collections::BTreeSet<char> = single.chars().chain((lo.chars().next().unwrap()..=hi.chars().next().unwrap()).into_iter()).collect();
        let got = ev.eval_fn_body(&f.block, &mut env).and_then(|r| match r {
            Val::Ctor(ok, p, _) if ok == "Ok" => match p.first() {
                Some(Val::Ctor(s, q, _)) if s == "Some" => match q.first() {
                    Some(Val::Ctor(k, _, fl)) if k == "ValueRange" => {
                        let g = |n: &str| match fl.get(n) { Some(Val::Ctor(_, p, _)) => p.first().and_then(|v| match v { Val::Ctor(_, p2, _) => match p2.first() { Some(Val::Str(s)) => s.chars().next(), _ => None }, _ => None }), _ => None };
                        match (g("min"), g("max")) {
                            (Some(a), Some(b)) => Ok((a..=b).collect::<std::collections::BTreeSet<char>>()),
                            o => Err(format!("range ends {:?}", o)),
                        }
                    }
                    Some(Val::Ctor(k, _, fl)) if k == "SingleValue" => match fl.get("value") {
                        Some(Val::Ctor(_, p, _)) => match p.first() { Some(Val::Str(s)) => Ok(s.chars().collect()), o => Err(format!("single value {:?}", o.map(|x| x.show()))) },
                        o => Err(format!("single value {:?}", o.map(|x| x.show()))),
                    },
                    o => Err(format!("result {:?}", o.map(|x| x.show()))),
                },
                // no PER-visible constraint: nothing to compare (only legitimate for the empty union)
                Some(Val::Ctor(s, _, _)) if s == "None" => Ok(want.clone()),
                o => Err(format!("result {:?}", o.map(|x| x.show()))),
            },
            o => Err(format!("result {}", o.show())),
        });
        match got {
            Ok(g) => {
                if g != want {
                    ctx.violate("C15.fold", "string-union-range", &f.file, f.line,
                        &format!("{} (folded inside one constraint, e.g. `SIZE (2) ^ FROM ({})`) denotes {:?}; it is {:?}", key, key, g.iter().collect::<String>(), want.iter().collect::<String>()));
                }
            }
            Err(e) => ctx.fail_closed("C15.fold", &format!("[{}]: {}", key, e)),
        }
    }
}

/// C15.ops: a set operation inside FROM, and serially applied constraints, denote what their operator says.
fn ops(m: &Model, ctx: &mut Ctx) {
    let consts_base = const_resolver(m);
    let consts = |n: &str| -> Option<Val> {
        match n {
            "char::MAX" => Some(Val::Char(char::MAX)),
            _ => consts_base(n),
        }
    };
    let operands: Vec<(&str, Vec<(char, char)>)> = vec![
        ("a..z", vec![('a', 'z')]),
        ("a..c", vec![('a', 'c')]),
        ("x", vec![('x', 'x')]),
        ("abc", vec![('a', 'a'), ('b', 'b'), ('c', 'c')]),
        ("a..c|x", vec![('a', 'c'), ('x', 'x')]),
        ("c..k", vec![('c', 'k')]),
        ("0..9", vec![('0', '9')]),
        // operands as written, not sorted: subsets are kept in source order until finalize()
        ("x|a..c", vec![('x', 'x'), ('a', 'c')]),
        ("cxa", vec![('c', 'c'), ('x', 'x'), ('a', 'a')]),
    ];
    let inl = inline_all(m, &["PerVisibleAlphabetConstraints"]);
    // `+=` on alphabets is the union the crate implements in AddAssign: evaluated from its own body
    let add_assign = m.fns.iter().find(|f| f.name == "add_assign" && f.self_ty.as_deref() == Some("PerVisibleAlphabetConstraints"));
    let hook = |ev: &Evaluator, name: &str, args: &[Val]| -> Option<Result<Val, String>> {
        match name {
            ".max" | ".min" => match (args.first(), args.get(1)) {
                (Some(Val::Char(a)), Some(Val::Char(b))) => Some(Ok(Val::Char(if name == ".max" { *a.max(b) } else { *a.min(b) }))),
                _ => None,
            },
            ".retain" => match args.first() {
                Some(Val::Opaque(_)) => Some(Ok(Val::Unit)),
                _ => None,
            },
            // the index table (character_by_index) is not part of the denotation: opaque wherever it is created
            "BTreeMap::new" => Some(Ok(Val::Opaque("character_by_index".into()))),
            ".append" => match (args.first(), args.get(1)) {
                (Some(Val::Opaque(_)), _) => Some(Ok(Val::Unit)),
                _ => None,
            },
            "op:add_assign" => {
                let f = add_assign?;
                let mut env = Env::new();
                env.insert("self".into(), args[0].clone());
                let p = f.sig.inputs.iter().filter_map(|a| match a { syn::FnArg::Typed(t) => Some(tok(&t.pat)), _ => None }).next().unwrap_or("rhs".into());
                env.insert(p, args[1].clone());
                Some(ev.eval_fn_body(&f.block, &mut env).and_then(|_| env.get("self").cloned().ok_or("self lost".into())))
            }
            // operands are passed as marker strings: Some(&"a..z") -> the alphabet of that operand
            "from_subtype_elem" | "Self::from_subtype_elem" | "try_new" | "Self::try_new" | "PerVisibleAlphabetConstraints::try_new" => {
                let marker = match args.first() {
                    Some(Val::Ctor(s, p, _)) if s == "Some" => p.first().cloned(),
                    Some(o) => Some(o.clone()),
                    None => None,
                };
                match marker {
                    Some(Val::Str(mk)) if mk == "invisible" => Some(Ok(Val::Ctor("Ok".into(), vec![Val::none()], BTreeMap::new()))),
                    Some(Val::Str(mk)) => {
                        let r: Vec<(char, char)> = match mk.as_str() {
                            "a..z" => vec![('a', 'z')],
                            "a..c" => vec![('a', 'c')],
                            "x" => vec![('x', 'x')],
                            "abc" => vec![('a', 'a'), ('b', 'b'), ('c', 'c')],
                            "a..c|x" => vec![('a', 'c'), ('x', 'x')],
                            "c..k" => vec![('c', 'k')],
                            "0..9" => vec![('0', '9')],
                            _ => return Some(Err(format!("unknown operand marker {}", mk))),
                        };
                        Some(Ok(Val::Ctor("Ok".into(), vec![Val::some(alphabet(&r))], BTreeMap::new())))
                    }
                    _ => None,
                }
            }
            _ => None,
        }
    };
    let ev = Evaluator { consts: &consts, call_hook: &hook, inline: Some(&inl) };
    let den = |r: &[(char, char)]| denotation(&alphabet(r)).unwrap();

    // (1) the intersection primitive, if the crate has one, is exact
    let isect = m.fns.iter().find(|f| f.self_ty.as_deref() == Some("PerVisibleAlphabetConstraints") && f.name == "intersect");
    if let Some(f) = isect {
        ctx.func(&f.key);
        let p = f.sig.inputs.iter().filter_map(|a| match a { syn::FnArg::Typed(t) => Some(tok(&t.pat)), _ => None }).next().unwrap_or("rhs".into());
        for (ln, l) in &operands {
            for (rn, r) in &operands {
                let key = format!("intersect:{}^{}", ln, rn);
                ctx.oblige("C15.ops", &key, true);
                let mut env = Env::new();
                env.insert("self".into(), alphabet(l));
                env.insert(p.clone(), alphabet(r));
                match ev.eval_fn_body(&f.block, &mut env).and_then(|_| denotation(env.get("self").unwrap_or(&Val::Unit))) {
                    Ok(got) => {
                        let want: std::collections::BTreeSet<char> = den(l).intersection(&den(r)).cloned().collect();
                        if got != want {
                            ctx.violate("C15.ops", "intersect-exact", &f.file, f.line, &format!("intersect({}, {}) denotes {:?}, the intersection is {:?}", ln, rn, got.iter().collect::<String>(), want.iter().collect::<String>()));
                        }
                    }
                    Err(e) => ctx.fail_closed("C15.ops", &format!("[{}]: {}", key, e)),
                }
            }
        }
    }

    // (2) a set operation `base <op> operant` inside FROM
    let setop = |base: &str, op: &str, operant: Val| {
        let mut f = BTreeMap::new();
        f.insert("base".to_string(), Val::Str(base.into()));
        f.insert("operator".to_string(), Val::ctor(op));
        f.insert("operant".to_string(), operant);
        Val::Ctor("SetOperation".into(), vec![], f)
    };
    let elem = |mk: &str| Val::Ctor("Element".into(), vec![Val::Str(mk.into())], BTreeMap::new());
    let nested = |v: Val| Val::Ctor("SetOperation".into(), vec![v], BTreeMap::new());
    let Some(fse) = m.fns.iter().find(|f| f.self_ty.as_deref() == Some("PerVisibleAlphabetConstraints") && f.name == "from_subtype_elem") else {
        ctx.fail_closed("C15.ops", "anchor not found: PerVisibleAlphabetConstraints::from_subtype_elem");
        return;
    };
    ctx.func(&fse.key);
    // the arm of from_subtype_elem for PermittedAlphabet is evaluated with the set operation as its payload
    type Set = std::collections::BTreeSet<char>;
    let u = |a: &Set, b: &Set| -> Set { a.union(b).cloned().collect() };
    let i = |a: &Set, b: &Set| -> Set { a.intersection(b).cloned().collect() };
    let az = den(&[('a', 'z')]);
    let ac = den(&[('a', 'c')]);
    let x = den(&[('x', 'x')]);
    let ck = den(&[('c', 'k')]);
    let d09 = den(&[('0', '9')]);
    let cases: Vec<(&str, Val, Option<Set>)> = vec![
        ("a..z ^ a..c", setop("a..z", "Intersection", elem("a..c")), Some(i(&az, &ac))),
        ("a..c ^ c..k", setop("a..c", "Intersection", elem("c..k")), Some(i(&ac, &ck))),
        ("a..c | x", setop("a..c", "Union", elem("x")), Some(u(&ac, &x))),
        ("abc | 0..9", setop("abc", "Union", elem("0..9")), Some(u(&ac, &d09))),
        ("a..z EXCEPT x (X.691 10.3.21: EXCEPT ignored)", setop("a..z", "Except", elem("x")), Some(az.clone())),
        ("a..c EXCEPT x", setop("a..c", "Except", elem("x")), Some(ac.clone())),
        ("a..c | <not PER-visible> (10.3.21: not PER-visible)", setop("a..c", "Union", elem("invisible")), None),
        ("a..c ^ <not PER-visible> (10.3.21: ignored)", setop("a..c", "Intersection", elem("invisible")), Some(ac.clone())),
    ];
    for (what, so, want) in cases {
        let key = format!("FROM ({})", what);
        ctx.oblige("C15.ops", &key, true);
        let pa = Val::Ctor("PermittedAlphabet".into(), vec![Val::Ctor("SetOperation".into(), vec![so], BTreeMap::new())], BTreeMap::new());
        let params: Vec<String> = fse.sig.inputs.iter().filter_map(|a| match a { syn::FnArg::Typed(t) => Some(tok(&t.pat)), _ => None }).collect();
        let mut env = Env::new();
        env.insert(params.first().cloned().unwrap_or("element".into()), Val::some(pa));
        env.insert(params.get(1).cloned().unwrap_or("string_type".into()), Val::ctor("IA5String"));
        let got = ev.eval_fn_body(&fse.block, &mut env).and_then(|r| match r {
            Val::Ctor(ok, p, _) if ok == "Ok" => match p.first() {
                Some(Val::Ctor(s, q, _)) if s == "Some" => denotation(q.first().unwrap_or(&Val::Unit)).map(Some),
                Some(Val::Ctor(s, _, _)) if s == "None" => Ok(None),
                o => Err(format!("result {:?}", o.map(|x| x.show()))),
            },
            o => Err(format!("result {}", o.show())),
        });
        match got {
            // an empty union identity wrapped around "not PER-visible" is the same as no alphabet
            Ok(g) => {
                let g2 = g.clone().filter(|s| !s.is_empty());
                if g2 != want.clone().filter(|s| !s.is_empty()) {
                    ctx.violate("C15.ops", &format!("set-operation:{}", what.split(' ').nth(1).unwrap_or("?")), &fse.file, fse.line,
                        &format!("{} denotes {:?}; by its operators it is {:?}", key, g.map(|s| s.iter().collect::<String>()), want.map(|s| s.iter().collect::<String>())));
                }
            }
            Err(e) => ctx.fail_closed("C15.ops", &format!("[{}]: {}", key, e)),
        }
    }

    // (2b) chains of three and four operands with mixed operators, as the lexer's own production nests them (SRC-G): X.680
    // clause 50 gives EXCEPT precedence over intersection and intersection over union; X.691 10.3.21 drops an EXCEPT with
    // the elements that follow it. The denotation must be the union of the intersections.
    {
        let names = ["a..z", "a..c", "x", "c..k", "0..9", "a..c|x"];
        let sets: Vec<Set> = vec![az.clone(), ac.clone(), x.clone(), ck.clone(), d09.clone(), u(&ac, &x)];
        let words = [("|", "Union"), ("^", "Intersection"), ("EXCEPT", "Except")];
        let params: Vec<String> = fse.sig.inputs.iter().filter_map(|a| match a { syn::FnArg::Typed(t) => Some(tok(&t.pat)), _ => None }).collect();
        let mut reported: std::collections::BTreeSet<String> = Default::default();
        let mut n = 0usize;
        let mut run_chain = |ctx: &mut Ctx, idx: &[usize], ws: &[(&str, &str)]| {
            let shape = ws.iter().map(|w| w.1).collect::<Vec<_>>().join("-");
            if reported.contains(&shape) {
                return;
            }
            let mut groups: Vec<Set> = vec![sets[idx[0]].clone()];
            for (w, k) in ws.iter().zip(idx.iter().skip(1)) {
                match w.1 {
                    "Except" => {}
                    "Intersection" => { let g = groups.last_mut().unwrap(); *g = i(g, &sets[*k]); }
                    _ => groups.push(sets[*k].clone()),
                }
            }
            let want: Set = groups.iter().fold(Set::new(), |a, b| u(&a, b));
            // an intersection without a common character contributes nothing to the union it stands in; the constraint as a
            // whole is then the union of the other parts (an error — a warning for the definition — is acceptable too, a
            // different set is not). A constraint that permits no character at all is left out.
            let has_empty = groups.iter().any(|g| g.is_empty());
            if want.is_empty() {
                return;
            }
            n += 1;
            let text = format!("FROM ({})", idx.iter().enumerate().map(|(j, k)| if j == 0 { names[*k].to_string() } else { format!("{} {}", ws[j - 1].0, names[*k]) }).collect::<Vec<_>>().join(" "));
            let vals: Vec<Val> = idx.iter().map(|k| Val::Str(names[*k].into())).collect();
            let tree = match crate::rules::c04::parser_chain(m, &ev, &consts, &ws.iter().map(|w| w.0).collect::<Vec<_>>(), &vals) {
                Ok(t) => t,
                Err(e) => {
                    ctx.fail_closed("C15.prec", &format!("[tree of {}]: {}", text, e));
                    reported.insert(shape);
                    return;
                }
            };
            let pa = Val::Ctor("PermittedAlphabet".into(), vec![Val::Ctor("SetOperation".into(), vec![tree], BTreeMap::new())], BTreeMap::new());
            let mut env = Env::new();
            env.insert(params.first().cloned().unwrap_or("element".into()), Val::some(pa));
            env.insert(params.get(1).cloned().unwrap_or("string_type".into()), Val::ctor("IA5String"));
            let got = ev.eval_fn_body(&fse.block, &mut env).and_then(|r| match r {
                Val::Ctor(ok, p, _) if ok == "Ok" => match p.first() {
                    Some(Val::Ctor(s, q, _)) if s == "Some" => denotation(q.first().unwrap_or(&Val::Unit)),
                    Some(Val::Ctor(s, _, _)) if s == "None" => Ok(Set::new()),
                    o => Err(format!("result {:?}", o.map(|x| x.show()))),
                },
                o => Err(format!("result {}", o.show())),
            });
            match got {
                Ok(g) if g == want => {}
                Ok(g) => {
                    let missing: String = want.difference(&g).collect();
                    let extra: String = g.difference(&want).collect();
                    ctx.violate("C15.prec", &format!("{}:{}", shape, if !missing.is_empty() { "characters-missing" } else { "characters-added" }), &fse.file, fse.line,
                        &format!("{} denotes {:?}; by X.680 precedence (EXCEPT over intersection over union) it is {:?}{}{}", text, g.iter().collect::<String>(), want.iter().collect::<String>(),
                            if missing.is_empty() { String::new() } else { format!(": permitted characters {:?} are missing from the annotation", missing) }, if extra.is_empty() { String::new() } else { format!(": {:?} are not permitted", extra) }));
                    reported.insert(shape);
                }
                Err(_) if has_empty => {}
                Err(e) => {
                    ctx.fail_closed("C15.prec", &format!("[{}]: {}", text, e));
                    reported.insert(shape);
                }
            }
        };
        for w1 in &words {
            for w2 in &words {
                ctx.oblige("C15.prec", &format!("{}-{}", w1.1, w2.1), true);
                for a in 0..names.len() {
                    for b in 0..names.len() {
                        for c in 0..names.len() {
                            run_chain(ctx, &[a, b, c], &[*w1, *w2]);
                        }
                    }
                }
            }
        }
        let small = [1usize, 3, 4];
        for w1 in &words {
            for w2 in &words {
                for w3 in &words {
                    if w1.1 == w2.1 && w2.1 == w3.1 {
                        continue;
                    }
                    ctx.oblige("C15.prec", &format!("{}-{}-{}", w1.1, w2.1, w3.1), true);
                    for a in small {
                        for b in small {
                            for c in small {
                                for d in small {
                                    run_chain(ctx, &[a, b, c, d], &[*w1, *w2, *w3]);
                                }
                            }
                        }
                    }
                }
            }
        }
        ctx.oblige_n("C15.prec/chains", n);
        ctx.floor("C15.prec/chains", n, 500);
    }

    // (3) serially applied constraints intersect: every fn that folds try_new over a list of constraints
    let serial: Vec<&crate::model::FnInfo> = m.fns.iter().filter(|f| f.krate == "rasn-compiler" && !f.module.contains("tests") && f.name != "try_new" && {
        let b = tok(&f.block);
        b.contains("PerVisibleAlphabetConstraints::try_new(") || (b.contains("Self::try_new(") && f.self_ty.as_deref() == Some("PerVisibleAlphabetConstraints"))
    }).collect();
    // a fold nobody calls is not on the path to the annotation
    let invoked: std::collections::BTreeSet<String> = m.fns.iter().filter(|f| f.krate == "rasn-compiler" && !f.module.contains("tests")).flat_map(|f| model::invoked_names(&f.block)).collect();
    let serial: Vec<&crate::model::FnInfo> = serial.into_iter().filter(|f| invoked.contains(&f.name)).collect();
    ctx.floor("C15.ops/serial-folds", serial.len(), 1);
    for f in serial {
        ctx.func(&f.key);
        let params: Vec<String> = f.sig.inputs.iter().filter_map(|a| match a { syn::FnArg::Typed(t) => Some(tok(&t.pat)), _ => None }).collect();
        // only folds over a constraint *list* parameter are evaluated; others are reported for audit
        let list_param = f.sig.inputs.iter().filter_map(|a| match a { syn::FnArg::Typed(t) if tok(&t.ty).contains("[Constraint]") || tok(&t.ty).contains("Vec<Constraint>") => Some(tok(&t.pat)), _ => None }).next();
        let Some(lp) = list_param else {
            ctx.oblige("C15.ops", &format!("serial:{}:delegates", f.name), true);
            if tok(&f.block).contains("+=") {
                ctx.violate("C15.ops", &format!("serial-union:{}", f.name), &f.file, f.line, &format!("`{}` combines the alphabets of several constraints with `+=` (union); serially applied constraints intersect", f.name));
            }
            continue;
        };
        for (what, list, want) in [
            ("(FROM a..z)(FROM a..c)", vec!["a..z", "a..c"], i(&az, &ac)),
            ("(FROM a..c)(FROM c..k)", vec!["a..c", "c..k"], i(&ac, &ck)),
            ("(FROM a..z)(SIZE ..)(FROM a..c|x)", vec!["a..z", "invisible", "a..c|x"], u(&ac, &x)),
            ("(FROM a..c)", vec!["a..c"], ac.clone()),
            ("(SIZE ..)", vec!["invisible"], Set::new()),
        ] {
            let key = format!("serial:{}:{}", f.name, what);
            ctx.oblige("C15.ops", &key, true);
            let mut env = Env::new();
            for a in f.sig.inputs.iter() {
                if let syn::FnArg::Typed(t) = a {
                    // the string type, as it is or optional
                    env.insert(tok(&t.pat), if tok(&t.ty).starts_with("Option<") { Val::some(Val::ctor("IA5String")) } else { Val::ctor("IA5String") });
                }
            }
            env.insert(lp.clone(), Val::List(list.iter().map(|s| Val::Str(s.to_string())).collect()));
            // the alphabet may come alone, optional, or as the last part of a tuple (range constraints, alphabet)
            fn alphabet_of(v: &Val) -> Result<Val, String> {
                match v {
                    Val::Ctor(n, p, _) if n == "Ok" || n == "Some" => alphabet_of(p.first().unwrap_or(&Val::Unit)),
                    Val::Ctor(n, _, _) if n == "None" => Ok(alphabet(&[])),
                    Val::Tuple(t) if !t.is_empty() => alphabet_of(t.last().unwrap()),
                    o => Ok(o.clone()),
                }
            }
            let got = ev.eval_fn_body(&f.block, &mut env).and_then(|r| alphabet_of(&r)).and_then(|a| denotation(&a));
            match got {
                Ok(g) => {
                    if g != want {
                        ctx.violate("C15.ops", &format!("serial:{}", f.name), &f.file, f.line,
                            &format!("{} applied serially denotes {:?} in `{}`; serial constraints intersect: {:?}", what, g.iter().collect::<String>(), f.name, want.iter().collect::<String>()));
                    }
                }
                Err(e) => ctx.fail_closed("C15.ops", &format!("[{}]: {}", key, e)),
            }
        }
    }

    // (4) "denotes exactly the set of characters allowed by the type's FROM constraints": a constraint that is not a FROM
    // constraint (a single value, a value range written directly on the type) contributes no alphabet. try_new is evaluated
    // with its helpers inlined on top-level elements of each kind.
    if let Some(tn) = m.fns.iter().find(|f| f.self_ty.as_deref() == Some("PerVisibleAlphabetConstraints") && f.name == "try_new") {
        ctx.func(&tn.key);
        let hook2 = |ev: &Evaluator, name: &str, args: &[Val]| -> Option<Result<Val, String>> {
            match name {
                "find_char_index" => match args.get(1) {
                    Some(Val::Char(c)) => Some(Ok(Val::Ctor("Ok".into(), vec![Val::int(*c as i128)], BTreeMap::new()))),
                    _ => None,
                },
                "find_string_index" => match args.first() {
                    Some(Val::Str(s)) => Some(Ok(Val::Ctor("Ok".into(), vec![Val::int(s.chars().next().map(|c| c as i128).unwrap_or(0))], BTreeMap::new()))),
                    _ => None,
                },
                ".character_set" => Some(Ok(Val::Opaque("charset".into()))),
                // every element kind used in these scenarios (values, ranges, FROM, SIZE) is PER-visible
                ".per_visible" if args.len() == 1 => Some(Ok(Val::Bool(true))),
                ".len" => match args.first() { Some(Val::Opaque(s)) if s == "charset" => Some(Ok(Val::int(128))), _ => None },
                ".iter" => match args.first() {
                    Some(Val::Opaque(s)) if s == "charset" => Some(Ok(Val::List((0u8..128).map(|i| Val::Tuple(vec![Val::int(i as i128), Val::Char(i as char)])).collect()))),
                    _ => None,
                },
                ".get" => match (args.first(), args.get(1)) {
                    (Some(Val::Opaque(s)), Some(Val::Int { v, .. })) if s == "charset" => Some(Ok(Val::some(Val::Char((*v as u8) as char)))),
                    _ => None,
                },
                _ => hook(ev, name, args),
            }
        };
        let ev2 = Evaluator { consts: &consts, call_hook: &hook2, inline: Some(&inl) };
        let params: Vec<String> = tn.sig.inputs.iter().filter_map(|a| match a { syn::FnArg::Typed(t) => Some(tok(&t.pat)), _ => None }).collect();
        let sv = |s: &str| {
            let mut f = BTreeMap::new();
            f.insert("value".to_string(), Val::Ctor("String".into(), vec![Val::Str(s.into())], BTreeMap::new()));
            f.insert("extensible".to_string(), Val::Bool(false));
            Val::Ctor("SingleValue".into(), vec![], f)
        };
        let vr = |a: &str, b: &str| {
            let mut f = BTreeMap::new();
            f.insert("min".to_string(), Val::some(Val::Ctor("String".into(), vec![Val::Str(a.into())], BTreeMap::new())));
            f.insert("max".to_string(), Val::some(Val::Ctor("String".into(), vec![Val::Str(b.into())], BTreeMap::new())));
            f.insert("extensible".to_string(), Val::Bool(false));
            Val::Ctor("ValueRange".into(), vec![], f)
        };
        let element = |e: Val| Val::Ctor("Element".into(), vec![e], BTreeMap::new());
        let from = |e: Val| Val::Ctor("PermittedAlphabet".into(), vec![element(e)], BTreeMap::new());
        let cases: Vec<(&str, &str, Val, bool, bool)> = vec![
            ("single-value", "IA5String (\"abc\")", sv("abc"), false, false),
            ("value-range", "IA5String (\"a\"..\"c\")", vr("a", "c"), false, false),
            ("from-single-value", "IA5String (FROM (\"abc\"))", from(sv("abc")), false, true),
            ("from-value-range", "IA5String (FROM (\"a\"..\"c\"))", from(vr("a", "c")), false, true),
            // an alphabet that can be extended is not PER-visible: the marker behind the FROM constraint counts like the one inside it
            ("extensible-from", "IA5String (FROM (\"a\"..\"c\"), ...)", from(vr("a", "c")), true, false),
        ];
        for (k, what, elem, outer_extensible, want_some) in cases {
            ctx.oblige("C15.top", k, true);
            let mut spec = BTreeMap::new();
            spec.insert("set".to_string(), element(elem));
            spec.insert("extensible".to_string(), Val::Bool(outer_extensible));
            let c = Val::Ctor("Subtype".into(), vec![Val::Ctor("ElementSetSpecs".into(), vec![], spec)], BTreeMap::new());
            let mut env = Env::new();
            env.insert(params.first().cloned().unwrap_or("constraint".into()), c);
            env.insert(params.get(1).cloned().unwrap_or("string_type".into()), Val::ctor("IA5String"));
            match ev2.eval_fn_body(&tn.block, &mut env) {
                Ok(Val::Ctor(ok, p, _)) if ok == "Ok" => {
                    let is_some = matches!(p.first(), Some(Val::Ctor(s, _, _)) if s == "Some");
                    if is_some != want_some && outer_extensible {
                        ctx.violate("C15.top", "extensible-alphabet", &tn.file, tn.line,
                            &format!("try_new: `{}` yields a permitted alphabet: with the extension marker any character may follow in a later version, the constraint is not PER-visible and the annotation `from(\"a..=c\")` (not extensible) denotes fewer characters than the type allows", what));
                    } else if is_some != want_some {
                        ctx.violate("C15.top", &format!("alphabet-without-FROM:{}", k), &tn.file, tn.line,
                            &format!("try_new: `{}` {} a permitted alphabet; only FROM constraints (and contained string subtypes) restrict the alphabet — a value constraint is not PER-visible for a known-multiplier string, and an alphabet derived from it changes the PER character width", what, if is_some { "yields" } else { "does not yield" }));
                    }
                }
                Ok(o) => ctx.fail_closed("C15.top", &format!("[{}]: try_new evaluates to {}", k, o.show())),
                Err(e) => ctx.fail_closed("C15.top", &format!("[{}]: {}", k, e)),
            }
        }
        // set operations between FROM constraints (and other kinds) written directly on the type: the alphabets combine as
        // sets — `FROM ("ACE") ^ FROM ("B".."D")` permits `C` only (folded as ranges it came out as B..D) —, a SIZE operand
        // is no alphabet (ignored in an intersection, makes a union not PER-visible)
        let size = {
            let mut f = BTreeMap::new();
            f.insert("min".to_string(), Val::some(Val::Ctor("Integer".into(), vec![Val::int(1)], BTreeMap::new())));
            f.insert("max".to_string(), Val::some(Val::Ctor("Integer".into(), vec![Val::int(4)], BTreeMap::new())));
            f.insert("extensible".to_string(), Val::Bool(false));
            Val::Ctor("SizeConstraint".into(), vec![element(Val::Ctor("ValueRange".into(), vec![], f))], BTreeMap::new())
        };
        let setop = |base: Val, op: &str, operant: Val| {
            let mut f = BTreeMap::new();
            f.insert("base".to_string(), base);
            f.insert("operator".to_string(), Val::ctor(op));
            f.insert("operant".to_string(), element(operant));
            Val::Ctor("SetOperation".into(), vec![Val::Ctor("SetOperation".into(), vec![], f)], BTreeMap::new())
        };
        let set = |s: &str| -> std::collections::BTreeSet<char> { s.chars().collect() };
        let tops: Vec<(&str, Val, Option<std::collections::BTreeSet<char>>)> = vec![
            ("FROM (\"ACE\") ^ FROM (\"B\"..\"D\")", setop(from(sv("ACE")), "Intersection", from(vr("B", "D"))), Some(set("C"))),
            ("FROM (\"B\"..\"D\") ^ FROM (\"ACE\")", setop(from(vr("B", "D")), "Intersection", from(sv("ACE"))), Some(set("C"))),
            ("FROM (\"ACE\") | FROM (\"B\"..\"D\")", setop(from(sv("ACE")), "Union", from(vr("B", "D"))), Some(set("ABCDE"))),
            ("FROM (\"a\"..\"c\") ^ SIZE (1..4)", setop(from(vr("a", "c")), "Intersection", size.clone()), Some(set("abc"))),
            ("SIZE (1..4) ^ FROM (\"a\"..\"c\")", setop(size.clone(), "Intersection", from(vr("a", "c"))), Some(set("abc"))),
            ("FROM (\"a\"..\"c\") | SIZE (1..4)", setop(from(vr("a", "c")), "Union", size.clone()), None),
        ];
        for (what, setv, want) in tops {
            ctx.oblige("C15.ops", &format!("top-level:{}", what), true);
            let mut spec = BTreeMap::new();
            spec.insert("set".to_string(), setv);
            spec.insert("extensible".to_string(), Val::Bool(false));
            let c = Val::Ctor("Subtype".into(), vec![Val::Ctor("ElementSetSpecs".into(), vec![], spec)], BTreeMap::new());
            let mut env = Env::new();
            env.insert(params.first().cloned().unwrap_or("constraint".into()), c);
            env.insert(params.get(1).cloned().unwrap_or("string_type".into()), Val::ctor("IA5String"));
            let got = ev2.eval_fn_body(&tn.block, &mut env).and_then(|r| match r {
                Val::Ctor(ok, p, _) if ok == "Ok" => match p.first() {
                    Some(Val::Ctor(s2, q, _)) if s2 == "Some" => denotation(q.first().unwrap_or(&Val::Unit)).map(Some),
                    Some(Val::Ctor(s2, _, _)) if s2 == "None" => Ok(None),
                    o => Err(format!("result {:?}", o.map(|x| x.show()))),
                },
                // a warning for the definition is acceptable where nothing sensible can be emitted
                Val::Ctor(e, _, _) if e == "Err" => Ok(want.clone()),
                o => Err(format!("result {}", o.show())),
            });
            match got {
                Ok(g) => {
                    if g.clone().filter(|x| !x.is_empty()) != want.clone().filter(|x| !x.is_empty()) {
                        ctx.violate("C15.ops", "top-level-set-operation", &tn.file, tn.line,
                            &format!("`IA5String ({})` yields the alphabet {:?}; the characters the constraint allows are {:?} (the operands' alphabets combined as sets)", what, g.map(|x| x.iter().collect::<String>()), want.map(|x| x.iter().collect::<String>())));
                    }
                }
                Err(e) => ctx.fail_closed("C15.ops", &format!("[top-level {}]: {}", what, e)),
            }
        }
    } else {
        ctx.fail_closed("C15.top", "anchor not found: PerVisibleAlphabetConstraints::try_new");
    }
}
