//! C05 — extension markers, additions and addition groups are preserved.
use crate::eval::{Env, Evaluator, Val};
use crate::model::{self, tok, FnInfo, Model};
use crate::report::Ctx;
use crate::rules::util::*;
use serde_json::json;
use std::collections::BTreeMap;

fn sym(s: &str) -> Val {
    Val::Sym(s.to_string())
}

fn ok_ctor(name: &str, v: Val) -> Val {
    Val::Ctor(name.into(), vec![v], BTreeMap::new())
}

pub fn from_impls(m: &Model) -> Vec<&FnInfo> {
    m.fns
        .iter()
        .filter(|f| f.name == "from" && f.module.starts_with("intermediate::types") && ["SequenceOrSet", "Choice", "Enumerated"].contains(&f.self_ty.as_deref().unwrap_or("")) && f.trait_.as_deref().map(|t| t.contains("Option<ExtensionMarker>")).unwrap_or(false))
        .collect()
}

/// format_member_or_option assembles the `#[rasn(..)]` attribute of every SEQUENCE / SET component and CHOICE alternative
/// from what its callers hand it (the extension marking, the DEFAULT annotation) and what it computes itself (tag, range,
/// alphabet). It is evaluated whole for components of every kind of type; `item` names the ingredient the calling property
/// is about ("extension", "tag", "default"): it must be among the annotations that reach join_annotations, whatever the
/// kind of the component's type — a branch that rebuilds the list for one kind (character strings have one) loses it there.
pub fn member_annotations(m: &Model, ctx: &mut Ctx, rule: &str, item: &str) {
    let Some(f) = anchor_fn(m, ctx, rule, Some("Rasn"), "format_member_or_option", None) else { return };
    let consts = const_resolver(m);
    let okv = |v: Val| Val::Ctor("Ok".into(), vec![v], BTreeMap::new());
    let hook = |_: &Evaluator, name: &str, a: &[Val]| -> Option<Result<Val, String>> {
        let field = |k: &str| match a.first() { Some(Val::Ctor(_, _, f)) => f.get(k).cloned(), _ => None };
        let show = |v: &Val| match v { Val::Sym(s) | Val::Str(s) => s.clone(), o => o.show() };
        match name {
            ".ty" | ".name" | ".is_recursive" | ".constraints" | ".tag" if a.len() == 1 => field(&name[1..]).map(Ok),
            ".constraints_and_type_name" => Some(Ok(okv(Val::Tuple(vec![Val::List(vec![]), Val::Sym("TYPE".into())])))),
            "Self::needs_unnesting" | "Rasn::needs_unnesting" => Some(Ok(Val::Bool(matches!(a.first(), Some(Val::Ctor(k, _, _)) if ["Sequence", "Set", "Choice", "Enumerated"].contains(&k.as_str()))))),
            ".inner_name" => Some(Ok(Val::Sym("INNER".into()))),
            ".format_range_annotations" => Some(Ok(okv(Val::Sym(match a.get(1) { Some(Val::Bool(b)) => format!("<RANGE:signed={}>", b), Some(o) => format!("<RANGE:signed=?{}>", o.show()), None => "<RANGE>".into() })))),
            ".format_alphabet_annotations" => Some(Ok(okv(Val::Sym("<ALPHABET>".into())))),
            ".format_tag" => Some(Ok(Val::Sym("<TAG>".into()))),
            ".format_identifier_annotation" => Some(Ok(Val::Sym("<IDENTIFIER>".into()))),
            ".join_annotations" => Some(Ok(okv(Val::Sym(match a.get(1) { Some(Val::List(l)) => l.iter().map(show).collect::<Vec<_>>().join(" "), o => format!("?{}", o.map(|v| v.show()).unwrap_or_default()) })))),
            ".to_token_stream" | ".to_owned" | ".clone" if a.len() == 1 => Some(Ok(a[0].clone())),
            ".to_string" if a.len() == 1 => Some(Ok(match &a[0] { Val::Sym(s) => Val::Str(s.clone()), o => o.clone() })),
            "boxed_type" => Some(Ok(a.first().cloned().unwrap_or(Val::Unit))),
            _ => None,
        }
    };
    let ev = Evaluator { consts: &consts, call_hook: &hook, inline: None };
    let params: Vec<String> = f.sig.inputs.iter().filter_map(|a| match a { syn::FnArg::Typed(t) => Some(tok(&t.pat)), _ => None }).collect();
    if params.len() < 5 {
        ctx.fail_closed(rule, "format_member_or_option: expected (member, parent name, rust identifier, extension annotation, default annotation)");
        return;
    }
    let cs = |t: &str| Val::Ctor("CharacterString".into(), vec![Val::Ctor("CharacterString".into(), vec![], [("ty".to_string(), Val::ctor(t)), ("constraints".to_string(), Val::List(vec![]))].into_iter().collect())], BTreeMap::new());
    let plain = |k: &str| Val::Ctor(k.into(), vec![Val::Opaque("payload".into())], BTreeMap::new());
    let kinds: Vec<(&str, Val)> = vec![
        ("INTEGER", plain("Integer")), ("BOOLEAN", plain("Boolean")), ("OCTET STRING", plain("OctetString")), ("BIT STRING", plain("BitString")),
        ("UTF8String", cs("UTF8String")), ("PrintableString", cs("PrintableString")), ("IA5String", cs("IA5String")), ("BMPString", cs("BMPString")), ("GeneralString", cs("GeneralString")),
        ("a type reference", plain("ElsewhereDeclaredType")), ("SEQUENCE OF", plain("SequenceOf")), ("an inline SEQUENCE", plain("Sequence")), ("an inline ENUMERATED", plain("Enumerated")), ("NULL", Val::ctor("Null")),
    ];
    let want = match item { "extension" => "<EXT>", "tag" => "<TAG>", "signed" => "<RANGE:signed=true>", _ => "<DEFAULT>" };
    for (label, ty) in kinds {
        // the bounds of an INTEGER — written in place or behind a type reference — have no lower end unless one is written
        if item == "signed" && !["INTEGER", "a type reference"].contains(&label) {
            continue;
        }
        ctx.oblige(rule, &format!("{}:{}", item, label), true);
        let mut me = BTreeMap::new();
        me.insert("name".to_string(), Val::Str("field".into()));
        me.insert("ty".to_string(), ty);
        me.insert("is_recursive".to_string(), Val::Bool(false));
        me.insert("constraints".to_string(), Val::List(vec![]));
        me.insert("tag".to_string(), Val::some(Val::Opaque("tag".into())));
        let mut env = Env::new();
        env.insert("self".into(), Val::ctor("Rasn"));
        env.insert(params[0].clone(), Val::Ctor("SequenceOrSetMember".into(), vec![], me));
        env.insert(params[1].clone(), Val::Str("Parent".into()));
        env.insert(params[2].clone(), Val::Str("field".into()));
        env.insert(params[3].clone(), Val::Sym("<EXT>".into()));
        env.insert(params[4].clone(), Val::some(Val::Sym("<DEFAULT>".into())));
        match ev.eval_fn_body(&f.block, &mut env) {
            Ok(Val::Ctor(ok, p, _)) if ok == "Ok" => {
                let ann = match p.first() { Some(Val::Ctor(_, _, fl)) => fl.get("annotations").map(|v| match v { Val::Sym(s) | Val::Str(s) => s.clone(), o => o.show() }).unwrap_or_default(), _ => String::new() };
                if item == "signed" {
                    if !ann.split_whitespace().any(|a| a == want) {
                        ctx.violate(rule, &format!("member-bounds-folded-unsigned:{}", label.replace(' ', "-")), &f.file, f.line,
                            &format!("format_member_or_option, component of type {}: its constraints are folded as `{}` — as unsigned, an absent lower bound becomes 0: `a Plain (MIN..5)` with `Plain ::= INTEGER` is annotated value(\"0..=5\"), which excludes the negative values the constraint permits (a reference may stand for an INTEGER; for a SIZE constraint the flag changes nothing)", label, ann.split_whitespace().find(|a| a.starts_with("<RANGE")).unwrap_or("")));
                    }
                } else if !ann.split_whitespace().any(|a| a == want) {
                    ctx.violate(rule, &format!("member-loses-{}", item), &f.file, f.line,
                        &format!("format_member_or_option, component of type {}: the annotations handed to join_annotations are `{}` — the {} is not among them{}", label, ann, match item { "extension" => "extension marking passed in by the caller", "tag" => "component's tag", _ => "DEFAULT annotation passed in by the caller" },
                            if item == "extension" { ": an extension addition of that type is declared as a root component" } else { "" }));
                }
            }
            Ok(o) => ctx.fail_closed(rule, &format!("[{}]: {}", label, o.show().chars().take(120).collect::<String>())),
            Err(e) => ctx.fail_closed(rule, &format!("[{}]: {}", label, e)),
        }
    }
}

pub fn run(m: &Model, ctx: &mut Ctx) {
    ctx.explanation = "C05.index: the four lexer->IR conversions (From impls taking (root, Option<ExtensionMarker>, Option<additions>)) are evaluated abstractly on their syntax tree over opaque element symbols \
for every combination of 0..2 root components, marker present/absent and 0..2 additions (the code is parametric in the elements, so small lists are exhaustive): the stored index must be Some(number of root components) exactly when the marker is present, \
and the component list must be root ++ additions in order; the lexer productions deliver (root, marker, additions) in that tuple order. \
C05.cmp: at the three generator sites the extension annotation expression is evaluated for every order relation between the component index and the stored index (and for no marker) and for group/non-group names: \
extension_addition(_group) iff marker present and index >= stored index. \
C05.nonexh: #[non_exhaustive] iff marker present or EXTENSIBILITY IMPLIED at the three sites; header clause table. \
C05.group: extension_group builds exactly one member, named with the ext-group prefix, holding the grouped members in order; the generator recognises groups by the same prefix constant. \
Not decided: that nom delivers the components it saw (run-time parser semantics).".into();
    ctx.assumptions = vec![
        "rasn's derive implements extension_addition / extension_addition_group / non_exhaustive as X.691 requires".into(),
        "data independence: the conversions never inspect component contents except the Member/ComponentsOf tag".into(),
    ];
    ctx.rule("abstract evaluation over opaque list elements (sizes 0..2) and over the order relations of (index, first-extension index)");
    // "the components after the marker, and only those": COMPONENTS OF inserts root components ahead of the marker, so the
    // including type's first-extension index moves with them (the analysis lives with C09.splice)
    borrow(ctx, "C09", "C09.splice", "C05.splice", &mut |sub| crate::rules::c09::run(m, sub));
    // the first-extension index is a *position*: whatever reorders, filters or duplicates the component list after the index
    // was taken moves components across the marker (the adaptor whitelist lives with C02.order)
    borrow(ctx, "C02", "C02.order", "C05.reorder", &mut |sub| crate::rules::c02::order(m, sub));
    member_annotations(m, ctx, "C05.member", "extension");
    let consts = const_resolver(m);
    let ev = Evaluator { consts: &consts, call_hook: &crate::eval::no_hook, inline: None };

    // ---------------- C05.index ----------------
    let impls = from_impls(m);
    ctx.floor("C05.index/from-impls", impls.len(), 4);
    for f in &impls {
        ctx.func(&f.key);
        let target = f.self_ty.clone().unwrap_or_default();
        let pty = match f.sig.inputs.first() {
            Some(syn::FnArg::Typed(t)) => tok(&t.ty),
            _ => String::new(),
        };
        let pname = match f.sig.inputs.first() {
            Some(syn::FnArg::Typed(t)) => tok(&t.pat).replace("mut ", ""),
            _ => "value".into(),
        };
        let nested = pty.starts_with("((");
        let with_components_of = pty.contains("SequenceComponent");
        let list_field = match target.as_str() {
            "SequenceOrSet" => "members",
            "Choice" => "options",
            "Enumerated" => "members",
            _ => "members",
        };
        let mk_elem = |tag: &str, i: usize| -> Val {
            if with_components_of {
                Val::Ctor("Member".into(), vec![sym(&format!("{}{}", tag, i))], BTreeMap::new())
            } else {
                sym(&format!("{}{}", tag, i))
            }
        };
        let unwrap_elem = |v: &Val| -> Val {
            match v {
                Val::Ctor(n, p, _) if n == "Member" => p[0].clone(),
                o => o.clone(),
            }
        };
        for nroot in 0..=2usize {
            for marker in [false, true] {
                for nadd in [None, Some(0usize), Some(1), Some(2)] {
                    for cof in if with_components_of { vec![false, true] } else { vec![false] } {
                        let mut root: Vec<Val> = (0..nroot).map(|i| mk_elem("r", i)).collect();
                        if cof {
                            root.insert(0, Val::Ctor("ComponentsOf".into(), vec![Val::Str("Other".into())], BTreeMap::new()));
                        }
                        let adds: Option<Vec<Val>> = nadd.map(|n| (0..n).map(|i| mk_elem("a", i)).collect());
                        let triple = Val::Tuple(vec![
                            Val::List(root.clone()),
                            if marker { Val::some(Val::ctor("ExtensionMarker")) } else { Val::none() },
                            adds.clone().map(|a| Val::some(Val::List(a))).unwrap_or(Val::none()),
                        ]);
                        let arg = if nested { Val::Tuple(vec![triple, Val::none()]) } else { triple };
                        let key = format!("{}<-{}: root={} marker={} additions={:?}{}", target, if with_components_of { "SequenceComponent" } else { "plain" }, nroot, marker, nadd, if cof { " +COMPONENTS OF first" } else { "" });
                        ctx.oblige("C05.index", &key, true);
                        let mut env = Env::new();
                        env.insert(pname.clone(), arg);
                        let res = match ev.eval_fn_body(&f.block, &mut env) {
                            Ok(v) => v,
                            Err(e) => {
                                ctx.fail_closed("C05.index", &format!("[{}]: {}", key, e));
                                continue;
                            }
                        };
                        let (ext, list) = match &res {
                            Val::Ctor(_, _, n) => (n.get("extensible").cloned(), n.get(list_field).cloned()),
                            _ => (None, None),
                        };
                        let want_members: Vec<Val> = root.iter().chain(adds.iter().flatten()).filter(|v| !matches!(v, Val::Ctor(n, _, _) if n == "ComponentsOf")).map(|v| unwrap_elem(v)).collect();
                        let n_root_members = root.iter().filter(|v| !matches!(v, Val::Ctor(n, _, _) if n == "ComponentsOf")).count();
                        let want_ext = if marker { Val::some(Val::int(n_root_members as i128)) } else { Val::none() };
                        match list {
                            Some(Val::List(l)) => {
                                if l != want_members {
                                    ctx.violate("C05.index", &format!("{}:{}:component-list", target, if with_components_of { "SequenceComponent" } else { "plain" }), &f.file, f.line,
                                        &format!("[{}] the component list is {} — expected root ++ additions in source order: {}", key, Val::List(l).show(), Val::List(want_members.clone()).show()));
                                }
                            }
                            o => ctx.fail_closed("C05.index", &format!("[{}]: no `{}` list in the result ({:?})", key, list_field, o.map(|v| v.show()))),
                        }
                        match ext {
                            Some(e) => {
                                let same = match (&e, &want_ext) {
                                    (Val::Ctor(a, p, _), Val::Ctor(b, q, _)) => a == b && match (p.first(), q.first()) {
                                        (Some(Val::Int { v: x, .. }), Some(Val::Int { v: y, .. })) => x == y,
                                        (None, None) => true,
                                        _ => false,
                                    },
                                    _ => false,
                                };
                                if !same {
                                    let k = if cof { "components-of-counted-in-root-length" } else { "first-extension-index" };
                                    ctx.violate("C05.index", &format!("{}:{}:{}", target, if with_components_of { "SequenceComponent" } else { "plain" }, k), &f.file, f.line,
                                        &format!("[{}] stored extension index is {} — expected {} (Some(number of root components) exactly when the marker is present)", key, e.show(), want_ext.show()));
                                }
                            }
                            None => ctx.fail_closed("C05.index", &format!("[{}]: no `extensible` field in the result", key)),
                        }
                        if nroot == 1 && marker && nadd == Some(1) && !cof {
                            ctx.sample(json!({"conversion": f.key, "case": key, "result": res.show()}));
                        }
                    }
                }
            }
        }
    }

    lexer_tuple_order(m, ctx);
    cmp_sites(m, ctx, &ev);
    non_exhaustive(m, ctx, &ev);
    groups(m, ctx, &ev);
    reset_rule(m, ctx, "C05.env", "extensibility_environment");
    // the TypeScript backend's side of "extensible exactly when ..." (= C18.shape's implied-flag rules)
    crate::rules::c18::implied_flag(m, ctx, "C05.ts");
}

/// sequence / set / choice deliver (root, marker, additions) in that order; enumerated_body likewise
fn lexer_tuple_order(m: &Model, ctx: &mut Ctx) {
    for (name, comp) in [("sequence", "sequence_component"), ("set", "sequence_component"), ("choice", "choice_option")] {
        let Some(f) = anchor_fn(m, ctx, "C05.order", None, name, Some("lexer")) else { continue };
        ctx.oblige("C05.order", name, true);
        // the tuple passed to in_braces
        let mut found = None;
        for c in model::calls_in(&f.block) {
            if model::callee_name(&c).as_deref() == Some("in_braces") {
                if let Some(syn::Expr::Tuple(t)) = c.args.first() {
                    found = Some(t.clone());
                }
            }
        }
        let Some(t) = found else {
            ctx.fail_closed("C05.order", &format!("{}: no in_braces((..)) tuple", name));
            continue;
        };
        let parts: Vec<String> = t.elems.iter().map(|e| tok(e)).collect();
        let ok = parts.len() == 3
            && parts[0].starts_with("many0(") && parts[0].contains(comp) && !parts[0].contains("extension_marker")
            && parts[1].starts_with("opt(") && parts[1].contains("extension_marker") && !parts[1].contains(comp)
            && parts[2].starts_with("opt(") && parts[2].contains(comp) && !parts[2].contains("extension_marker");
        if !ok {
            ctx.violate("C05.order", name, &f.file, f.line,
                &format!("{}: the body must be parsed as (root components, optional extension marker, optional additions) in that order; found {:?}", name, parts.iter().map(|p| p.chars().take(60).collect::<String>()).collect::<Vec<_>>()));
        }
    }
    if let Some(f) = anchor_fn(m, ctx, "C05.order", None, "enumerated_body", Some("lexer")) {
        ctx.oblige("C05.order", "enumerated_body", true);
        // `let (input, <var>) = <parser>.parse(input)?;` statements in source order
        struct L {
            out: Vec<(String, String)>,
            ret: Vec<String>,
        }
        impl model::DeepCb for L {
            fn local(&mut self, l: &syn::Local) {
                if let (syn::Pat::Tuple(pt), Some(init)) = (&l.pat, &l.init) {
                    if pt.elems.len() == 2 && tok(&pt.elems[0]) == "input" {
                        self.out.push((tok(&pt.elems[1]), tok(&init.expr)));
                    }
                }
            }
            fn expr(&mut self, e: &syn::Expr) {
                if let syn::Expr::Call(c) = e {
                    if tok(&c.func) == "Ok" {
                        if let Some(syn::Expr::Tuple(t)) = c.args.first() {
                            if t.elems.len() == 2 && tok(&t.elems[0]) == "input" {
                                if let syn::Expr::Tuple(inner) = &t.elems[1] {
                                    self.ret = inner.elems.iter().map(|x| tok(x)).collect();
                                }
                            }
                        }
                    }
                }
            }
        }
        let mut l = L { out: vec![], ret: vec![] };
        model::deep_walk_block(&f.block, &mut l);
        let numbering: Vec<String> = m.fns.iter().filter(|g| g.module.ends_with("lexer::enumerated") && tok(&g.block).contains("Enumeral{")).map(|g| g.name.clone()).collect();
        let is_list = |init: &str| numbering.iter().any(|n| init.contains(&format!("{}(", n)));
        let shape: Vec<&str> = l.out.iter().map(|(_, init)| if init.contains("extension_marker") { "marker" } else if is_list(init) { "list" } else { "other" }).filter(|k| *k != "other").collect();
        let vars: Vec<String> = l.out.iter().filter(|(_, init)| init.contains("extension_marker") || is_list(init)).map(|(v, _)| v.clone()).collect();
        let ok = shape == ["list", "marker", "list"] && l.ret == vars;
        if !ok {
            ctx.violate("C05.order", "enumerated_body", &f.file, f.line,
                &format!("enumerated_body must parse root enumerals, then the optional marker, then the additions, and return them in that order; parsed {:?} bound to {:?}, returned {:?}", shape, vars, l.ret));
        }
    }
}

/// The per-component closure of each of the three renderers is evaluated as a whole, for every order relation between the
/// component index and the stored first-extension index (and for no marker), for group / non-group names; the annotation
/// it hands to the member formatter is observed at the sink call.
fn cmp_sites(m: &Model, ctx: &mut Ctx, _ev: &Evaluator) {
    let mut sites = 0;
    let consts = const_resolver(m);
    for (fname, list, has_groups) in [("format_enum_members", "members", false), ("format_sequence_or_set_members", "members", true), ("format_choice_options", "options", true)] {
        let Some(f) = anchor_fn(m, ctx, "C05.cmp", Some("Rasn"), fname, None) else { continue };
        let params: Vec<String> = f.sig.inputs.iter().filter_map(|a| match a { syn::FnArg::Typed(t) => Some(tok(&t.pat)), _ => None }).collect();
        let Some(container) = params.first().cloned() else { continue };
        // the closure that decides the annotation, and the iterator it is applied to
        struct C {
            out: Vec<(syn::ExprClosure, String)>,
        }
        impl model::DeepCb for C {
            fn expr(&mut self, e: &syn::Expr) {
                if let syn::Expr::MethodCall(mc) = e {
                    for a in mc.args.iter() {
                        if let syn::Expr::Closure(cl) = a {
                            if tok(&cl.body).contains("extension_addition") && !self.out.iter().any(|(c, _)| tok(c).contains(&tok(cl)) && tok(c) != tok(cl)) {
                                self.out.push((cl.clone(), tok(&mc.receiver)));
                            }
                        }
                    }
                }
            }
        }
        let mut c = C { out: vec![] };
        model::deep_walk_block(&f.block, &mut c);
        // keep outermost closures only
        let texts: Vec<String> = c.out.iter().map(|(cl, _)| tok(cl)).collect();
        let outer: Vec<&(syn::ExprClosure, String)> = c.out.iter().enumerate().filter(|(i, _)| !texts.iter().enumerate().any(|(j, t)| j != *i && t.len() > texts[*i].len() && t.contains(&texts[*i]))).map(|(_, x)| x).collect();
        if outer.len() != 1 {
            ctx.violate("C05.cmp", &format!("{}:site-count={}", fname, outer.len()), &f.file, f.line, &format!("{}: expected exactly one per-component closure deciding the extension annotation, found {}", fname, outer.len()));
            continue;
        }
        let (clo, recv) = outer[0];
        ctx.oblige("C05.cmp", &format!("{}:index-and-list-of-same-type", fname), true);
        if *recv != format!("{}.{}.iter().enumerate()", container, list) {
            ctx.violate("C05.cmp", &format!("{}:index-and-list-of-same-type", fname), &f.file, f.line,
                &format!("{}: the per-component closure runs over `{}`; the position compared with `{}.extensible` must be the position in `{}.{}.iter().enumerate()`", fname, recv, container, container, list));
        }
        sites += 1;
        let sink = |ann: &Val| Val::Ctor("$SINK".into(), vec![ann.clone()], BTreeMap::new());
        let hook = |_: &Evaluator, name: &str, a: &[Val]| -> Option<Result<Val, String>> {
            match name {
                ".format_sequence_member" => Some(a.get(3).map(|x| Ok(sink(x))).unwrap_or(Err("format_sequence_member without annotation".into()))),
                ".format_choice_option" => Some(a.get(4).map(|x| Ok(sink(x))).unwrap_or(Err("format_choice_option without annotation".into()))),
                ".join_annotations" => match a.get(1) {
                    Some(Val::List(l)) if !l.is_empty() => Some(Ok(sink(&l[0]))),
                    _ => Some(Err("join_annotations without a list".into())),
                },
                ".and_then" | ".map" | ".map_err" if matches!(a.first(), Some(Val::Ctor(n, _, _)) if n == "$SINK") => Some(Ok(a[0].clone())),
                // the manglers turn hyphens into underscores (the internal group prefix contains underscores, which no ASN.1
                // identifier can: a user-written `ext-group-x` is an ordinary component)
                ".to_rust_enum_identifier" | ".to_rust_snake_case" | ".to_rust_title_case" => Some(Ok(match a.get(1) { Some(Val::Str(n)) => Val::Str(n.replace('-', "_")), Some(o) => o.clone(), None => Val::Unit })),
                "Self::needs_unnesting" | "Rasn::needs_unnesting" => Some(Ok(Val::Bool(false))),
                _ => None,
            }
        };
        let ev = Evaluator { consts: &consts, call_hook: &hook, inline: None };
        // the module's EXTENSIBILITY default makes a type extensible, it does not move the position of the first addition: both
        // settings are evaluated, the expected marking is the same
        for xenv in ["Explicit", "Implied"] {
        for ext in [None, Some(0usize), Some(1), Some(2), Some(3)] {
            for i in 0..4usize {
                for (group, spelled) in if has_groups { vec![(false, "abc"), (true, "ext_group_abc"), (false, "ext-group-abc")] } else { vec![(false, "abc")] } {
                    let key = format!("{}: i={} first_ext={:?} name={}{}", fname, i, ext, spelled, if xenv == "Implied" { " EXTENSIBILITY IMPLIED" } else { "" });
                    ctx.oblige("C05.cmp", &key, true);
                    let mut n = BTreeMap::new();
                    n.insert("name".to_string(), Val::Str(spelled.into()));
                    n.insert("index".to_string(), Val::int(i as i128));
                    n.insert("ty".to_string(), Val::Opaque("ty".into()));
                    let member = Val::Ctor("member".into(), vec![], n);
                    let mut cv = BTreeMap::new();
                    cv.insert("extensible".to_string(), ext.map(|e| Val::some(Val::int(e as i128))).unwrap_or(Val::none()));
                    cv.insert(list.to_string(), Val::List(vec![member.clone(); 4]));
                    let mut env = Env::new();
                    env.insert(container.clone(), Val::Ctor("container".into(), vec![], cv));
                    env.insert("self".into(), Val::Ctor("Rasn".into(), vec![], [("extensibility_environment".to_string(), Val::ctor(xenv)), ("tagging_environment".to_string(), Val::ctor("Automatic"))].into_iter().collect()));
                    for p in params.iter().skip(1) {
                        env.insert(p.clone(), Val::Str("Parent".into()));
                    }
                    // the fn's own leading `let`s (e.g. the stored index) are evaluated first
                    for st in &f.block.stmts {
                        if let syn::Stmt::Local(l) = st {
                            if let (syn::Pat::Ident(pi), Some(init)) = (&l.pat, &l.init) {
                                if !tok(&init.expr).contains("extension_addition") {
                                    if let Ok(v) = ev.eval(&init.expr, &mut env) {
                                        env.insert(pi.ident.to_string(), v);
                                    }
                                }
                            }
                        }
                    }
                    let pair = Val::Tuple(vec![Val::int(i as i128), member.clone()]);
                    let args = if clo.inputs.len() == 2 { vec![Val::Opaque("acc".into()), pair] } else { vec![pair] };
                    match ev.apply_closure(&syn::Expr::Closure(clo.clone()), &args, &env) {
                        Ok(Val::Ctor(s, p, _)) if s == "$SINK" => {
                            let got = match p.first() {
                                Some(Val::Sym(s)) => s.clone(),
                                Some(Val::Opaque(s)) if s.contains("TokenStream::new") => String::new(),
                                Some(o) => o.show(),
                                None => "?".into(),
                            };
                            let want = match ext {
                                Some(e) if i >= e => if group { "extension_addition_group" } else { "extension_addition" },
                                _ => "",
                            };
                            if got != want {
                                let rel = match ext { None => "no-marker".to_string(), Some(e) => (if i < e { "i<ext" } else if i == e { "i=ext" } else { "i>ext" }).to_string() };
                                ctx.violate("C05.cmp", &format!("{}:{}:group={}{}", fname, rel, group, if xenv == "Implied" { ":implied" } else { "" }), &f.file, span_line(clo),
                                    &format!("[{}] annotation `{}`, expected `{}`: the components after the marker, and only those, are extension additions", key, got, want));
                            }
                        }
                        Ok(o) => ctx.fail_closed("C05.cmp", &format!("[{}]: the closure does not end in the member formatter (got {})", key, o.show().chars().take(120).collect::<String>())),
                        Err(e) => ctx.fail_closed("C05.cmp", &format!("[{}]: {}", key, e)),
                    }
                }
            }
        }
        }
    }
    ctx.floor("C05.cmp/sites", sites, 3);
}

fn non_exhaustive(m: &Model, ctx: &mut Ctx, ev: &Evaluator) {
    let mut sites = 0;
    for (fname, tmpl) in [("generate_enumerated", "enumerated_template"), ("generate_choice", "choice_template"), ("generate_sequence_or_set", "sequence_or_set_template")] {
        let Some(f) = anchor_fn(m, ctx, "C05.nonexh", Some("Rasn"), fname, None) else { continue };
        struct C {
            out: Vec<syn::Local>,
        }
        impl model::DeepCb for C {
            fn local(&mut self, l: &syn::Local) {
                if let Some(init) = &l.init {
                    if tok(&init.expr).contains("non_exhaustive") {
                        self.out.push(l.clone());
                    }
                }
            }
        }
        let mut c = C { out: vec![] };
        model::deep_walk_block(&f.block, &mut c);
        if c.out.len() != 1 {
            ctx.violate("C05.nonexh", &format!("{}:site-count={}", fname, c.out.len()), &f.file, f.line, &format!("{}: expected exactly one #[non_exhaustive] decision, found {}", fname, c.out.len()));
            continue;
        }
        sites += 1;
        let var = tok(&c.out[0].pat);
        let init = c.out[0].init.as_ref().unwrap().expr.clone();
        // the decision's receiver variable (enumerated / choice / seq)
        // the identifier in front of `.extensible`, whatever expression it stands in (method chain, match scrutinee, ..)
        let recv = {
            let t = tok(&init);
            let head = t.split(".extensible").next().unwrap_or("");
            head.rsplit(|c: char| !(c.is_alphanumeric() || c == '_')).next().unwrap_or("").to_string()
        };
        for ext in [None, Some(0usize), Some(2)] {
            for envn in ["Implied", "Explicit"] {
                let key = format!("{}: marker={:?} extensibility={}", fname, ext, envn);
                ctx.oblige("C05.nonexh", &key, true);
                let mut env = Env::new();
                let mut selfv = BTreeMap::new();
                selfv.insert("extensibility_environment".to_string(), Val::ctor(envn));
                env.insert("self".into(), Val::Ctor("Rasn".into(), vec![], selfv));
                let mut cv = BTreeMap::new();
                cv.insert("extensible".to_string(), ext.map(|e| Val::some(Val::int(e as i128))).unwrap_or(Val::none()));
                cv.insert("members".to_string(), Val::List(vec![sym("x"), sym("y")]));
                cv.insert("options".to_string(), Val::List(vec![sym("x"), sym("y")]));
                env.insert(recv.clone(), Val::Ctor("container".into(), vec![], cv));
                match ev.eval(&init, &mut env) {
                    Ok(v) => {
                        let got = match &v {
                            Val::Sym(s) => s.contains("non_exhaustive"),
                            Val::List(l) => !l.is_empty(),
                            // an empty token stream: no attribute
                            Val::Opaque(s) if s.contains("TokenStream::new") || s.contains("TokenStream::default") => false,
                            o => {
                                ctx.fail_closed("C05.nonexh", &format!("[{}]: result {}", key, o.show()));
                                continue;
                            }
                        };
                        let want = ext.is_some() || envn == "Implied";
                        if got != want {
                            ctx.violate("C05.nonexh", &format!("{}:marker={},implied={}", fname, ext.is_some(), envn == "Implied"), &f.file, span_line(&c.out[0]),
                                &format!("[{}] #[non_exhaustive] is {}: a type is extensible exactly when it has an extension marker or its module says EXTENSIBILITY IMPLIED", key, if got { "emitted" } else { "missing" }));
                        }
                    }
                    Err(e) => ctx.fail_closed("C05.nonexh", &format!("[{}]: {}", key, e)),
                }
            }
        }
        // the decision reaches the template
        ctx.oblige("C05.nonexh", &format!("{}:flows-into-template", fname), true);
        let passes = model::calls_in(&f.block).iter().any(|cl| model::callee_name(cl).as_deref() == Some(tmpl) && cl.args.iter().any(|a| tok(a) == var));
        if !passes {
            ctx.violate("C05.nonexh", &format!("{}:flows-into-template", fname), &f.file, f.line, &format!("{}: the #[non_exhaustive] decision `{}` is not passed to {}", fname, var, tmpl));
        }
    }
    ctx.floor("C05.nonexh/sites", sites, 3);
    // templates place #extensible on the item
    for tmpl in ["enumerated_template", "choice_template", "sequence_or_set_template"] {
        if let Some(f) = anchor_fn(m, ctx, "C05.nonexh", None, tmpl, Some("generator::rasn")) {
            ctx.oblige("C05.nonexh", &format!("{}:attribute-position", tmpl), true);
            let q = model::macros_named(&f.block, "quote");
            let ok = q.iter().any(|q| {
                let c = crate::quotex::canon(&crate::quotex::parse_quote_body(&q.tokens)).replace(' ', "");
                c.contains("#extensiblepubenum#name") || c.contains("#extensiblepubstruct#name")
            });
            if !ok {
                ctx.violate("C05.nonexh", &format!("{}:attribute-position", tmpl), &f.file, f.line, &format!("{} must place #extensible directly on the generated item", tmpl));
            }
        }
    }
    // header clause
    if let Some(f) = anchor_fn(m, ctx, "C05.nonexh", None, "environments", Some("lexer::module_header")) {
        struct C {
            out: Vec<syn::ExprClosure>,
        }
        impl model::DeepCb for C {
            fn expr(&mut self, e: &syn::Expr) {
                if let syn::Expr::Closure(c) = e {
                    if tok(&c.body).contains("ExtensibilityEnvironment::") {
                        self.out.push(c.clone());
                    }
                }
            }
        }
        let mut c = C { out: vec![] };
        model::deep_walk_block(&f.block, &mut c);
        ctx.oblige("C05.nonexh", "header-clause", true);
        let b = tok(&f.block);
        // the keyword parser may be `tag` or the crate's word-sequence parser
        if c.out.len() != 1 || !(b.contains("opt(tag(EXTENSIBILITY_IMPLIED))") || b.contains("opt(keywords(EXTENSIBILITY_IMPLIED))")) {
            ctx.violate("C05.nonexh", "header-clause", &f.file, f.line, "environments(): expected one closure mapping opt(tag(EXTENSIBILITY_IMPLIED)) to an ExtensibilityEnvironment");
        } else {
            for (val, want) in [(Val::some(sym("kw")), "Implied"), (Val::none(), "Explicit")] {
                let mut env = Env::new();
                match ev.apply_closure(&syn::Expr::Closure(c.out[0].clone()), &[val.clone()], &env.clone()) {
                    Ok(v) => {
                        if v.show() != want {
                            ctx.violate("C05.nonexh", &format!("header-clause:{}", want), &f.file, f.line, &format!("EXTENSIBILITY IMPLIED {} maps to {}, expected {}", if want == "Implied" { "present" } else { "absent" }, v.show(), want));
                        }
                    }
                    Err(e) => ctx.fail_closed("C05.nonexh", &e),
                }
                let _ = &mut env;
            }
        }
    }
}

fn groups(m: &Model, ctx: &mut Ctx, ev: &Evaluator) {
    let prefix = m.consts.iter().find(|c| c.name == "INTERNAL_EXTENSION_GROUP_NAME_PREFIX").and_then(|c| lit_of(&c.expr));
    let Some(Val::Str(prefix)) = prefix else {
        ctx.fail_closed("C05.group", "constant INTERNAL_EXTENSION_GROUP_NAME_PREFIX not found");
        return;
    };
    let Some(f) = anchor_fn(m, ctx, "C05.group", None, "extension_group", Some("lexer::sequence")) else { return };
    // the closure mapping the parsed group to a SequenceComponent
    struct C {
        out: Vec<syn::ExprClosure>,
    }
    impl model::DeepCb for C {
        fn expr(&mut self, e: &syn::Expr) {
            if let syn::Expr::Closure(c) = e {
                if tok(&c.body).contains("SequenceComponent::Member") {
                    self.out.push(c.clone());
                }
            }
        }
    }
    let mut c = C { out: vec![] };
    model::deep_walk_block(&f.block, &mut c);
    if c.out.len() != 1 {
        ctx.fail_closed("C05.group", "extension_group: mapping closure not found");
        return;
    }
    let mk = |name: &str| {
        let mut n = BTreeMap::new();
        n.insert("name".to_string(), Val::Str(name.to_string()));
        Val::Ctor("Member".into(), vec![Val::Ctor("SequenceOrSetMember".into(), vec![], n)], BTreeMap::new())
    };
    for names in [vec!["a"], vec!["a", "b"], vec!["a", "b", "c"]] {
        let key = format!("group of {}", names.len());
        ctx.oblige("C05.group", &key, true);
        let list = Val::List(names.iter().map(|n| mk(n)).collect());
        match ev.apply_closure(&syn::Expr::Closure(c.out[0].clone()), &[list], &Env::new()) {
            Ok(Val::Ctor(n, p, _)) if n == "Member" => {
                let mem = &p[0];
                let (name, ty, opt) = match mem {
                    Val::Ctor(_, _, f) => (f.get("name").cloned(), f.get("ty").cloned(), f.get("optionality").cloned()),
                    _ => (None, None, None),
                };
                let want_name = format!("{}{}", prefix, names[0]);
                if name != Some(Val::Str(want_name.clone())) {
                    ctx.violate("C05.group", "group-name", &f.file, f.line, &format!("the synthetic group member is named {:?}, expected `{}` (prefix + first grouped component)", name.map(|v| v.show()), want_name));
                }
                let inner = match &ty {
                    Some(Val::Ctor(k, p, _)) if k == "Sequence" => match p.first() {
                        Some(Val::Ctor(_, _, f)) => f.get("members").cloned(),
                        _ => None,
                    },
                    _ => None,
                };
                let got: Vec<String> = match inner {
                    Some(Val::List(l)) => l.iter().map(|v| match v { Val::Ctor(_, _, f) => f.get("name").map(|n| n.show()).unwrap_or_default(), o => o.show() }).collect(),
                    _ => vec!["<no member list>".into()],
                };
                let want: Vec<String> = names.iter().map(|n| format!("{:?}", n)).collect();
                if got != want {
                    ctx.violate("C05.group", "group-members", &f.file, f.line, &format!("a [[ ]] group of {:?} becomes a SEQUENCE of {:?}: it must contain exactly the grouped components in order", names, got));
                }
                let _ = opt;
            }
            Ok(o) => ctx.violate("C05.group", "group-shape", &f.file, f.line, &format!("a [[ ]] group becomes {}, expected exactly one member", o.show())),
            Err(e) => ctx.fail_closed("C05.group", &format!("[{}]: {}", key, e)),
        }
    }
    // generator: group detection by the same constant; Option<> wrapping
    if let Some(g) = anchor_fn(m, ctx, "C05.group", Some("Rasn"), "format_sequence_member", None) {
        struct D {
            out: Vec<syn::ExprIf>,
        }
        impl model::DeepCb for D {
            fn expr(&mut self, e: &syn::Expr) {
                if let syn::Expr::If(i) = e {
                    if tok(&i.then_branch).contains("quote!(Option<") {
                        self.out.push(i.clone());
                    }
                }
            }
        }
        let mut d = D { out: vec![] };
        model::deep_walk_block(&g.block, &mut d);
        if d.out.len() != 1 {
            ctx.violate("C05.group", "option-wrap-site", &g.file, g.line, "format_sequence_member: expected exactly one Option<..> wrapping decision");
        } else {
            let member_var = match g.sig.inputs.iter().nth(1) { Some(syn::FnArg::Typed(t)) => tok(&t.pat), _ => "member".into() };
            for (optionality, is_group) in [("Required", false), ("Optional", false), ("Default", false), ("Required", true), ("Optional", true)] {
                let key = format!("optionality={} group={}", optionality, is_group);
                ctx.oblige("C05.group", &format!("option-wrap:{}", key), true);
                let mut n = BTreeMap::new();
                n.insert("name".to_string(), Val::Str(if is_group { format!("{}x", prefix) } else { "x".into() }));
                n.insert("optionality".to_string(), if optionality == "Default" { Val::Ctor("Default".into(), vec![sym("v")], BTreeMap::new()) } else { Val::ctor(optionality) });
                let mut env = Env::new();
                env.insert(member_var.clone(), Val::Ctor("SequenceOrSetMember".into(), vec![], n));
                env.insert("formatted_type_name".into(), sym("T"));
                match ev.eval(&syn::Expr::If(d.out[0].clone()), &mut env) {
                    Ok(_) => {
                        let wrapped = matches!(env.get("formatted_type_name"), Some(Val::Sym(s)) if s.replace(' ', "") == "Option<T>");
                        let want = optionality == "Optional" || is_group;
                        if wrapped != want {
                            ctx.violate("C05.group", &format!("option-wrap:{}", key), &g.file, span_line(&d.out[0]),
                                &format!("[{}] the member type is {}wrapped in Option<>: OPTIONAL components and extension-addition groups are Option<_>, nothing else", key, if wrapped { "" } else { "not " }));
                        }
                    }
                    Err(e) => ctx.fail_closed("C05.group", &format!("[{}]: {}", key, e)),
                }
            }
        }
    }
}

/// The synthetic member the lexer builds for a `[[ ]]` group that holds nothing but COMPONENTS OF notations is named after the
/// first of them; the generators build Rust identifiers from that name (format_ident!: a panic on anything but identifier
/// characters), so whatever the referenced type is written like (`B`, `Mod.B`, `obj.&Field`), the name must consist of ASN.1
/// identifier characters (C08.groupname).
pub fn group_names(m: &Model, ctx: &mut Ctx, rule: &str) {
    let consts = const_resolver(m);
    let ev = Evaluator { consts: &consts, call_hook: &crate::eval::no_hook, inline: None };
    let prefix = m.consts.iter().find(|c| c.name == "INTERNAL_EXTENSION_GROUP_NAME_PREFIX").and_then(|c| lit_of(&c.expr));
    let Some(Val::Str(prefix)) = prefix else {
        ctx.fail_closed(rule, "constant INTERNAL_EXTENSION_GROUP_NAME_PREFIX not found");
        return;
    };
    let Some(f) = anchor_fn(m, ctx, rule, None, "extension_group", Some("lexer::sequence")) else { return };
    struct C {
        out: Vec<syn::ExprClosure>,
    }
    impl model::DeepCb for C {
        fn expr(&mut self, e: &syn::Expr) {
            if let syn::Expr::Closure(c) = e {
                if tok(&c.body).contains("SequenceComponent::Member") {
                    self.out.push(c.clone());
                }
            }
        }
    }
    let mut c = C { out: vec![] };
    model::deep_walk_block(&f.block, &mut c);
    if c.out.len() != 1 {
        ctx.fail_closed(rule, "extension_group: mapping closure not found");
        return;
    }
    for path in ["B", "foo.&Bar", "Mod-A.B"] {
        let key = format!("group of COMPONENTS OF {}", path);
        ctx.oblige(rule, &key, true);
        let list = Val::List(vec![Val::Ctor("ComponentsOf".into(), vec![Val::Str(path.into())], BTreeMap::new())]);
        match ev.apply_closure(&syn::Expr::Closure(c.out[0].clone()), &[list], &Env::new()) {
            Ok(Val::Ctor(n, p, _)) if n == "Member" => {
                let name = match &p[0] { Val::Ctor(_, _, f) => f.get("name").cloned(), _ => None };
                match name {
                    Some(Val::Str(nm)) => {
                        let rest = nm.strip_prefix(prefix.as_str()).unwrap_or(&nm);
                        if !nm.starts_with(prefix.as_str()) || !rest.chars().all(|ch| ch.is_ascii_alphanumeric() || ch == '-' || ch == '_') {
                            ctx.violate(rule, "group-name:not-an-identifier", &f.file, f.line, &format!("`[[ COMPONENTS OF {} ]]` becomes a synthetic member named {:?}: the generators turn that name into a Rust identifier with format_ident!, which panics on `.`, `&` and blanks — the name must be the prefix followed by identifier characters", path, nm));
                        }
                    }
                    o => ctx.fail_closed(rule, &format!("[{}]: name {:?}", key, o.map(|v| v.show()))),
                }
            }
            Ok(o) => ctx.violate(rule, "group-shape", &f.file, f.line, &format!("a [[ ]] group becomes {}, expected exactly one member", o.show())),
            Err(e) => ctx.fail_closed(rule, &format!("[{}]: {}", key, e)),
        }
    }
}
