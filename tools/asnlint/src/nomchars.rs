//! SRC-C — a concrete, character-level interpreter for the few nom combinator expressions that parse *text handed to the
//! compiler as configuration* (the derive annotation parser of the rasn backend). Anything outside the modelled set fails
//! closed. Closures (`take_while1(|c| ..)`) are evaluated by the syntax-tree evaluator on each character.
use crate::eval::{Env, Evaluator, Val};
use crate::model::tok;

#[derive(Clone, Debug, PartialEq)]
pub enum Out {
    Unit,
    Str(String),
    List(Vec<Out>),
    Tuple(Vec<Out>),
    None,
}

impl Out {
    pub fn to_val(&self) -> Val {
        match self {
            Out::Unit => Val::Unit,
            Out::Str(s) => Val::Str(s.clone()),
            Out::List(l) => Val::List(l.iter().map(|o| o.to_val()).collect()),
            Out::Tuple(l) => Val::Tuple(l.iter().map(|o| o.to_val()).collect()),
            Out::None => Val::none(),
        }
    }
}

type R = Result<Option<(usize, Out)>, String>;

fn lit_str(ev: &Evaluator, e: &syn::Expr) -> Result<String, String> {
    match crate::rules::util::lit_of(e) {
        Some(Val::Str(s)) => Ok(s),
        Some(Val::Char(c)) => Ok(c.to_string()),
        _ => match (ev.consts)(&tok(e)) {
            Some(Val::Str(s)) => Ok(s),
            Some(Val::Char(c)) => Ok(c.to_string()),
            _ => Err(format!("argument `{}` is not a literal or constant", tok(e))),
        },
    }
}

fn class(input: &str, at: usize, min: usize, pred: &dyn Fn(char) -> Result<bool, String>) -> R {
    let mut end = at;
    for (i, ch) in input[at..].char_indices() {
        if pred(ch)? {
            end = at + i + ch.len_utf8();
        } else {
            break;
        }
    }
    if input[at..end].chars().count() < min {
        return Ok(None);
    }
    Ok(Some((end, Out::Str(input[at..end].to_string()))))
}

pub fn run(ev: &Evaluator, e: &syn::Expr, input: &str, at: usize, depth: usize) -> R {
    use syn::Expr;
    if depth > 64 {
        return Err("parser expression nests too deep".into());
    }
    let seq = |items: Vec<&syn::Expr>| -> R {
        let mut pos = at;
        let mut outs = vec![];
        for it in items {
            match run(ev, it, input, pos, depth + 1)? {
                Some((p, o)) => { pos = p; outs.push(o); }
                None => return Ok(None),
            }
        }
        Ok(Some((pos, Out::Tuple(outs))))
    };
    match e {
        Expr::Paren(p) => run(ev, &p.expr, input, at, depth + 1),
        Expr::Tuple(t) => seq(t.elems.iter().collect()),
        Expr::MethodCall(mc) if mc.method == "parse" => run(ev, &mc.receiver, input, at, depth + 1),
        Expr::Path(p) => {
            let name = p.path.segments.last().map(|s| s.ident.to_string()).unwrap_or_default();
            match name.as_str() {
                "multispace0" => class(input, at, 0, &|c| Ok(c == ' ' || c == '\t' || c == '\n' || c == '\r')),
                "multispace1" => class(input, at, 1, &|c| Ok(c == ' ' || c == '\t' || c == '\n' || c == '\r')),
                "space0" => class(input, at, 0, &|c| Ok(c == ' ' || c == '\t')),
                "alphanumeric1" => class(input, at, 1, &|c| Ok(c.is_ascii_alphanumeric())),
                "alphanumeric0" => class(input, at, 0, &|c| Ok(c.is_ascii_alphanumeric())),
                "alpha1" => class(input, at, 1, &|c| Ok(c.is_ascii_alphabetic())),
                "digit1" => class(input, at, 1, &|c| Ok(c.is_ascii_digit())),
                "eof" => Ok(if at == input.len() { Some((at, Out::Unit)) } else { None }),
                "rest" => Ok(Some((input.len(), Out::Str(input[at..].to_string())))),
                o => Err(format!("unmodelled parser `{}`", o)),
            }
        }
        Expr::Call(c) => {
            let name = crate::model::callee_name(c).unwrap_or_default();
            let args: Vec<&syn::Expr> = c.args.iter().collect();
            match (name.as_str(), args.len()) {
                ("char", 1) | ("tag", 1) => {
                    let s = lit_str(ev, args[0])?;
                    Ok(if input[at..].starts_with(&s) { Some((at + s.len(), Out::Str(s))) } else { None })
                }
                ("delimited", 3) => match seq(args.clone())? { Some((p, Out::Tuple(mut o))) => Ok(Some((p, o.swap_remove(1)))), _ => Ok(None) },
                ("preceded", 2) => match seq(args.clone())? { Some((p, Out::Tuple(mut o))) => Ok(Some((p, o.swap_remove(1)))), _ => Ok(None) },
                ("terminated", 2) => match seq(args.clone())? { Some((p, Out::Tuple(mut o))) => Ok(Some((p, o.swap_remove(0)))), _ => Ok(None) },
                ("pair", 2) | ("tuple", _) => seq(args.clone()),
                ("separated_pair", 3) => match seq(args.clone())? { Some((p, Out::Tuple(o))) => Ok(Some((p, Out::Tuple(vec![o[0].clone(), o[2].clone()])))), _ => Ok(None) },
                ("opt", 1) => Ok(Some(run(ev, args[0], input, at, depth + 1)?.unwrap_or((at, Out::None)))),
                // wrappers that change the output type only
                ("into_inner", 1) | ("into", 1) | ("cut", 1) | ("complete", 1) => run(ev, args[0], input, at, depth + 1),
                // nom's take_until, and the crate's take_until_or (lexer::util): up to the first occurrence of either tag;
                // an error when neither occurs
                ("take_until", 1) => { let t = lit_str(ev, args[0])?; Ok(input[at..].find(&t).map(|i| (at + i, Out::Str(input[at..at + i].to_string())))) }
                ("take_until_or", 2) => {
                    let (t1, t2) = (lit_str(ev, args[0])?, lit_str(ev, args[1])?);
                    let i = match (input[at..].find(&t1), input[at..].find(&t2)) { (None, None) => None, (Some(i), None) | (None, Some(i)) => Some(i), (Some(i), Some(j)) => Some(i.min(j)) };
                    Ok(i.map(|i| (at + i, Out::Str(input[at..at + i].to_string()))))
                }
                ("recognize", 1) => Ok(run(ev, args[0], input, at, depth + 1)?.map(|(p, _)| (p, Out::Str(input[at..p].to_string())))),
                ("all_consuming", 1) => Ok(run(ev, args[0], input, at, depth + 1)?.filter(|(p, _)| *p == input.len())),
                ("value", 2) => Ok(run(ev, args[1], input, at, depth + 1)?.map(|(p, _)| (p, Out::Unit))),
                ("many0", 1) | ("many1", 1) | ("many0_count", 1) | ("many1_count", 1) => {
                    let mut pos = at;
                    let mut outs = vec![];
                    loop {
                        match run(ev, args[0], input, pos, depth + 1)? {
                            Some((p, o)) if p > pos => { pos = p; outs.push(o); }
                            // nom stops (many0) on a parser that consumed nothing
                            _ => break,
                        }
                    }
                    if name.starts_with("many1") && outs.is_empty() { Ok(None) } else { Ok(Some((pos, Out::List(outs)))) }
                }
                ("separated_list0", 2) | ("separated_list1", 2) => {
                    let mut outs = vec![];
                    let mut pos = at;
                    match run(ev, args[1], input, pos, depth + 1)? {
                        Some((p, o)) => { pos = p; outs.push(o); }
                        None => return Ok(if name == "separated_list1" { None } else { Some((at, Out::List(vec![]))) }),
                    }
                    loop {
                        let Some((p1, _)) = run(ev, args[0], input, pos, depth + 1)? else { break };
                        let Some((p2, o)) = run(ev, args[1], input, p1, depth + 1)? else { break };
                        if p2 == pos { break; }
                        pos = p2;
                        outs.push(o);
                    }
                    Ok(Some((pos, Out::List(outs))))
                }
                ("alt", 1) => match args[0] {
                    Expr::Tuple(t) => {
                        for a in t.elems.iter() {
                            if let Some(r) = run(ev, a, input, at, depth + 1)? { return Ok(Some(r)); }
                        }
                        Ok(None)
                    }
                    o => Err(format!("alt over `{}`", tok(o))),
                },
                ("take_while1", 1) | ("take_while", 1) => {
                    let min = if name == "take_while1" { 1 } else { 0 };
                    let pred = |ch: char| -> Result<bool, String> {
                        match ev.apply_closure(args[0], &[Val::Char(ch)], &Env::new())? {
                            Val::Bool(b) => Ok(b),
                            o => Err(format!("character predicate evaluates to {}", o.show())),
                        }
                    };
                    class(input, at, min, &pred)
                }
                ("is_a", 1) => { let s = lit_str(ev, args[0])?; class(input, at, 1, &|c| Ok(s.contains(c))) }
                ("is_not", 1) => { let s = lit_str(ev, args[0])?; class(input, at, 1, &|c| Ok(!s.contains(c))) }
                (o, n) => Err(format!("unmodelled combinator `{}` with {} arguments", o, n)),
            }
        }
        o => Err(format!("unmodelled parser expression `{}`", tok(o).chars().take(60).collect::<String>())),
    }
}
