//! Loader and graph algorithms for the facts emitted by the `mirscan` rustc driver.
use serde_json::Value;
use std::collections::{BTreeMap, BTreeSet, VecDeque};

#[derive(Debug, Clone, Default)]
pub struct Block {
    pub t: String,
    pub succ: Vec<usize>,
    pub line: usize,
    pub macros: Vec<String>,
    pub cleanup: bool,
    pub callee: String,
    pub callee_crate: String,
    pub resolved: bool,
    pub args: Vec<String>,
    pub target: i64,
    pub assert: String,
    pub discr: String,
    pub cases: Vec<(u64, usize)>,
    pub otherwise: i64,
    /// (stmt index, 'w'|'r', field chain, src, line)
    pub st: Vec<(usize, char, String, String, usize)>,
}

#[derive(Debug, Clone, Default)]
pub struct Body {
    pub krate: String,
    pub path: String,
    pub file: String,
    pub line: usize,
    pub kind: String,
    pub is_pub: bool,
    pub impl_trait: String,
    pub self_ty: String,
    pub blocks: Vec<Block>,
    pub fn_refs: Vec<String>,
    pub closures: Vec<String>,
}

impl Body {
    /// last path segment (method / fn name); closures -> "{closure#n}"
    pub fn name(&self) -> String {
        self.path.rsplit("::").next().unwrap_or("").to_string()
    }
    pub fn key(&self) -> String {
        format!("{}::{}", self.krate, self.path)
    }
}

#[derive(Debug, Clone)]
pub struct StaticItem {
    pub krate: String,
    pub path: String,
    pub mutable: bool,
    pub ty: String,
    pub freeze: bool,
    pub file: String,
    pub line: usize,
}

#[derive(Default)]
pub struct Facts {
    pub bodies: Vec<Body>,
    pub index: BTreeMap<String, usize>,
    pub statics: Vec<StaticItem>,
    pub keywords: BTreeMap<String, Vec<String>>,
    /// call graph over body indices
    pub edges: Vec<BTreeSet<usize>>,
    pub crates: Vec<String>,
}

fn s(v: &Value, k: &str) -> String {
    v[k].as_str().unwrap_or("").to_string()
}

impl Facts {
    pub fn load(v: &Value) -> Result<Facts, String> {
        let mut f = Facts::default();
        let crates = v["crates"].as_array().ok_or("facts: no crates array")?;
        for c in crates {
            let krate = s(c, "crate");
            f.crates.push(format!("{}:{}", krate, s(c, "crate_types")));
            for (ed, list) in c["keywords"].as_object().cloned().unwrap_or_default() {
                let l: Vec<String> = list.as_array().cloned().unwrap_or_default().iter().filter_map(|x| x.as_str().map(|s| s.to_string())).collect();
                f.keywords.entry(ed).or_insert(l);
            }
            for st in c["statics"].as_array().cloned().unwrap_or_default() {
                let item = StaticItem {
                    krate: krate.clone(),
                    path: s(&st, "path"),
                    mutable: st["mutable"].as_bool().unwrap_or(false),
                    ty: s(&st, "ty"),
                    freeze: st["freeze"].as_bool().unwrap_or(false),
                    file: s(&st, "file"),
                    line: st["line"].as_u64().unwrap_or(0) as usize,
                };
                if !f.statics.iter().any(|x| x.krate == item.krate && x.path == item.path) {
                    f.statics.push(item);
                }
            }
            for b in c["bodies"].as_array().cloned().unwrap_or_default() {
                let path = s(&b, "path");
                let key = format!("{}::{}", krate, path);
                if f.index.contains_key(&key) {
                    continue; // same crate analysed under a second cargo configuration
                }
                let mut body = Body {
                    krate: krate.clone(),
                    path,
                    file: s(&b, "file"),
                    line: b["line"].as_u64().unwrap_or(0) as usize,
                    kind: s(&b, "kind"),
                    is_pub: b["pub"].as_bool().unwrap_or(false),
                    impl_trait: s(&b, "impl_trait"),
                    self_ty: s(&b, "self_ty"),
                    blocks: vec![],
                    fn_refs: b["fn_refs"].as_array().cloned().unwrap_or_default().iter().filter_map(|x| x.as_str().map(|s| s.to_string())).collect(),
                    closures: b["closures"].as_array().cloned().unwrap_or_default().iter().filter_map(|x| x.as_str().map(|s| s.to_string())).collect(),
                };
                for bl in b["blocks"].as_array().cloned().unwrap_or_default() {
                    let mut blk = Block {
                        t: s(&bl, "t"),
                        succ: bl["succ"].as_array().cloned().unwrap_or_default().iter().filter_map(|x| x.as_u64().map(|n| n as usize)).collect(),
                        line: bl["line"].as_u64().unwrap_or(0) as usize,
                        macros: bl["macros"].as_array().cloned().unwrap_or_default().iter().filter_map(|x| x.as_str().map(|s| s.to_string())).collect(),
                        cleanup: bl["cleanup"].as_bool().unwrap_or(false),
                        callee: s(&bl, "callee"),
                        callee_crate: s(&bl, "callee_crate"),
                        resolved: bl["resolved"].as_bool().unwrap_or(false),
                        args: bl["args"].as_array().cloned().unwrap_or_default().iter().filter_map(|x| x.as_str().map(|s| s.to_string())).collect(),
                        target: bl["target"].as_i64().unwrap_or(-1),
                        assert: s(&bl, "assert"),
                        discr: s(&bl, "discr"),
                        cases: bl["cases"].as_array().cloned().unwrap_or_default().iter().filter_map(|c| Some((c[0].as_u64()?, c[1].as_u64()? as usize))).collect(),
                        otherwise: bl["otherwise"].as_i64().unwrap_or(-1),
                        st: vec![],
                    };
                    for st in bl["st"].as_array().cloned().unwrap_or_default() {
                        let i = st["i"].as_u64().unwrap_or(0) as usize;
                        if let Some(w) = st["w"].as_str() {
                            blk.st.push((i, 'w', w.to_string(), s(&st, "src"), st["line"].as_u64().unwrap_or(0) as usize));
                        } else if let Some(r) = st["r"].as_str() {
                            blk.st.push((i, 'r', r.to_string(), String::new(), 0));
                        } else if let Some(c) = st["c"].as_str() {
                            blk.st.push((i, 'c', c.to_string(), String::new(), st["line"].as_u64().unwrap_or(0) as usize));
                        }
                    }
                    body.blocks.push(blk);
                }
                f.index.insert(key, f.bodies.len());
                f.bodies.push(body);
            }
        }
        f.build_edges();
        Ok(f)
    }

    /// normalise a callee printed from another crate's point of view
    pub fn resolve_callee(&self, from_crate: &str, callee: &str, callee_crate: &str) -> Option<usize> {
        let krate = if callee_crate.is_empty() { from_crate } else { callee_crate };
        if let Some(i) = self.index.get(&format!("{}::{}", krate, callee)) {
            return Some(*i);
        }
        // cross-crate: path is prefixed with the crate name
        let stripped = callee.replace(&format!("{}::", krate), "");
        if let Some(i) = self.index.get(&format!("{}::{}", krate, stripped)) {
            return Some(*i);
        }
        None
    }

    fn build_edges(&mut self) {
        let n = self.bodies.len();
        let mut edges: Vec<BTreeSet<usize>> = vec![BTreeSet::new(); n];
        // trait method name -> impl bodies
        let mut trait_impls: BTreeMap<(String, String), Vec<usize>> = BTreeMap::new();
        for (i, b) in self.bodies.iter().enumerate() {
            if !b.impl_trait.is_empty() {
                let tname = b.impl_trait.rsplit("::").next().unwrap_or("").to_string();
                trait_impls.entry((tname, b.name())).or_default().push(i);
            }
        }
        for i in 0..n {
            let b = &self.bodies[i];
            let mut add = |callee: &str, ccrate: &str, out: &mut BTreeSet<usize>| {
                if let Some(j) = self.resolve_callee(&b.krate, callee, ccrate) {
                    out.insert(j);
                    return true;
                }
                false
            };
            let mut out = BTreeSet::new();
            for bl in &b.blocks {
                if bl.t != "call" {
                    continue;
                }
                if !add(&bl.callee, &bl.callee_crate, &mut out) && !bl.resolved {
                    // unresolved trait method: all impls of a trait with that method name
                    let mut segs = bl.callee.rsplit("::");
                    let m = segs.next().unwrap_or("").to_string();
                    let t = segs.next().unwrap_or("").to_string();
                    let t = t.split('<').next().unwrap_or("").to_string();
                    if let Some(v) = trait_impls.get(&(t, m)) {
                        out.extend(v.iter().cloned());
                    }
                }
            }
            for r in &b.fn_refs {
                add(r, "", &mut out);
                // cross-crate refs print with the crate prefix
                for k in ["rasn_compiler"] {
                    if let Some(x) = r.strip_prefix(&format!("{}::", k)) {
                        add(x, k, &mut out);
                    }
                }
            }
            for c in &b.closures {
                add(c, "", &mut out);
            }
            edges[i] = out;
        }
        // nested items (closures, inner fns, static initialisers) are reachable with their parent
        let paths: Vec<(String, String)> = self.bodies.iter().map(|b| (b.krate.clone(), b.path.clone())).collect();
        for i in 0..n {
            for j in 0..n {
                if i != j && paths[i].0 == paths[j].0 && paths[j].1.starts_with(&format!("{}::", paths[i].1)) {
                    edges[i].insert(j);
                }
            }
        }
        self.edges = edges;
    }

    pub fn reachable(&self, roots: &[usize]) -> (BTreeSet<usize>, BTreeMap<usize, usize>) {
        let mut seen = BTreeSet::new();
        let mut pred = BTreeMap::new();
        let mut q = VecDeque::new();
        for r in roots {
            if seen.insert(*r) {
                q.push_back(*r);
            }
        }
        while let Some(i) = q.pop_front() {
            for j in &self.edges[i] {
                if seen.insert(*j) {
                    pred.insert(*j, i);
                    q.push_back(*j);
                }
            }
        }
        (seen, pred)
    }

    pub fn chain(&self, pred: &BTreeMap<usize, usize>, mut i: usize) -> Vec<String> {
        let mut v = vec![self.bodies[i].path.clone()];
        while let Some(p) = pred.get(&i) {
            v.push(self.bodies[*p].path.clone());
            i = *p;
            if v.len() > 40 {
                break;
            }
        }
        v.reverse();
        v
    }

    /// strongly connected components (Tarjan), only those with a cycle
    pub fn sccs(&self, within: &BTreeSet<usize>) -> Vec<Vec<usize>> {
        struct T<'a> {
            f: &'a Facts,
            within: &'a BTreeSet<usize>,
            idx: BTreeMap<usize, usize>,
            low: BTreeMap<usize, usize>,
            on: BTreeSet<usize>,
            stack: Vec<usize>,
            n: usize,
            out: Vec<Vec<usize>>,
        }
        fn strong(t: &mut T, v: usize) {
            // iterative to avoid deep recursion
            let mut work: Vec<(usize, Vec<usize>, usize)> = vec![];
            let succ = |t: &T, v: usize| -> Vec<usize> { t.f.edges[v].iter().cloned().filter(|w| t.within.contains(w)).collect() };
            t.idx.insert(v, t.n);
            t.low.insert(v, t.n);
            t.n += 1;
            t.stack.push(v);
            t.on.insert(v);
            work.push((v, succ(t, v), 0));
            while let Some((v, ss, mut i)) = work.pop() {
                let mut descended = false;
                while i < ss.len() {
                    let w = ss[i];
                    i += 1;
                    if !t.idx.contains_key(&w) {
                        t.idx.insert(w, t.n);
                        t.low.insert(w, t.n);
                        t.n += 1;
                        t.stack.push(w);
                        t.on.insert(w);
                        work.push((v, ss.clone(), i));
                        work.push((w, succ(t, w), 0));
                        descended = true;
                        break;
                    } else if t.on.contains(&w) {
                        let lw = t.idx[&w];
                        let lv = t.low[&v];
                        t.low.insert(v, lv.min(lw));
                    }
                }
                if descended {
                    continue;
                }
                if t.low[&v] == t.idx[&v] {
                    let mut comp = vec![];
                    loop {
                        let w = t.stack.pop().unwrap();
                        t.on.remove(&w);
                        comp.push(w);
                        if w == v {
                            break;
                        }
                    }
                    if comp.len() > 1 || t.f.edges[v].contains(&v) {
                        t.out.push(comp);
                    }
                }
                if let Some((p, _, _)) = work.last() {
                    let lp = t.low[p];
                    let lv = t.low[&v];
                    t.low.insert(*p, lp.min(lv));
                }
            }
        }
        let mut t = T { f: self, within, idx: BTreeMap::new(), low: BTreeMap::new(), on: BTreeSet::new(), stack: vec![], n: 0, out: vec![] };
        for v in within.iter() {
            if !t.idx.contains_key(v) {
                strong(&mut t, *v);
            }
        }
        t.out
    }

    pub fn find(&self, pred: impl Fn(&Body) -> bool) -> Vec<usize> {
        self.bodies.iter().enumerate().filter(|(_, b)| pred(b)).map(|(i, _)| i).collect()
    }
}

/// immediate-dominator-free dominance: dom[b] = set of blocks dominating b (non-cleanup CFG from block 0)
pub fn dominators(body: &Body) -> Vec<BTreeSet<usize>> {
    let n = body.blocks.len();
    let all: BTreeSet<usize> = (0..n).collect();
    let mut preds: Vec<Vec<usize>> = vec![vec![]; n];
    for (i, b) in body.blocks.iter().enumerate() {
        for s in &b.succ {
            if *s < n {
                preds[*s].push(i);
            }
        }
    }
    let mut dom: Vec<BTreeSet<usize>> = vec![all.clone(); n];
    if n == 0 {
        return dom;
    }
    dom[0] = [0].into_iter().collect();
    let mut changed = true;
    while changed {
        changed = false;
        for b in 1..n {
            let mut new: Option<BTreeSet<usize>> = None;
            for p in &preds[b] {
                new = Some(match new {
                    None => dom[*p].clone(),
                    Some(s) => s.intersection(&dom[*p]).cloned().collect(),
                });
            }
            let mut new = new.unwrap_or_default();
            new.insert(b);
            if new != dom[b] {
                dom[b] = new;
                changed = true;
            }
        }
    }
    dom
}
