//! SRC-Q: analysis of `quote!{}` bodies (kept unexpanded on purpose).
use proc_macro2::{Delimiter, Spacing, TokenStream, TokenTree};
use std::collections::BTreeSet;

#[derive(Debug, Clone, PartialEq)]
pub enum QTok {
    Ident(String),
    Punct(char),
    Lit(String),
    /// `#var`
    Interp(String),
    /// `#( ... ) sep? *`
    Rep(Vec<QTok>, Option<char>),
    Group(char, Vec<QTok>),
}

pub fn parse_quote_body(ts: &TokenStream) -> Vec<QTok> {
    let toks: Vec<TokenTree> = ts.clone().into_iter().collect();
    let mut out = vec![];
    let mut i = 0;
    while i < toks.len() {
        match &toks[i] {
            TokenTree::Punct(p) if p.as_char() == '#' && i + 1 < toks.len() => match &toks[i + 1] {
                TokenTree::Ident(id) => {
                    out.push(QTok::Interp(id.to_string()));
                    i += 2;
                    continue;
                }
                TokenTree::Group(g) if g.delimiter() == Delimiter::Parenthesis => {
                    // repetition if followed by `*` or `sep *`
                    let mut j = i + 2;
                    let mut sep = None;
                    let mut is_rep = false;
                    if let Some(TokenTree::Punct(p2)) = toks.get(j) {
                        if p2.as_char() == '*' {
                            is_rep = true;
                            j += 1;
                        } else if let Some(TokenTree::Punct(p3)) = toks.get(j + 1) {
                            if p3.as_char() == '*' {
                                sep = Some(p2.as_char());
                                is_rep = true;
                                j += 2;
                            }
                        }
                    }
                    if is_rep {
                        out.push(QTok::Rep(parse_quote_body(&g.stream()), sep));
                        i = j;
                        continue;
                    }
                    out.push(QTok::Punct('#'));
                    i += 1;
                    continue;
                }
                _ => {
                    out.push(QTok::Punct('#'));
                    i += 1;
                    continue;
                }
            },
            TokenTree::Punct(p) => {
                let _ = matches!(p.spacing(), Spacing::Joint);
                out.push(QTok::Punct(p.as_char()));
            }
            TokenTree::Ident(id) => out.push(QTok::Ident(id.to_string())),
            TokenTree::Literal(l) => out.push(QTok::Lit(l.to_string())),
            TokenTree::Group(g) => {
                let d = match g.delimiter() {
                    Delimiter::Parenthesis => '(',
                    Delimiter::Brace => '{',
                    Delimiter::Bracket => '[',
                    Delimiter::None => ' ',
                };
                out.push(QTok::Group(d, parse_quote_body(&g.stream())));
            }
        }
        i += 1;
    }
    out
}

pub fn interp_vars(q: &[QTok], out: &mut BTreeSet<String>) {
    for t in q {
        match t {
            QTok::Interp(v) => {
                out.insert(v.clone());
            }
            QTok::Rep(b, _) | QTok::Group(_, b) => interp_vars(b, out),
            _ => {}
        }
    }
}

pub fn idents(q: &[QTok], out: &mut Vec<String>) {
    for t in q {
        match t {
            QTok::Ident(v) => out.push(v.clone()),
            QTok::Rep(b, _) | QTok::Group(_, b) => idents(b, out),
            _ => {}
        }
    }
}

/// canonical text with interpolations kept as `#v`
pub fn canon(q: &[QTok]) -> String {
    let mut s = String::new();
    for t in q {
        if !s.is_empty() {
            s.push(' ');
        }
        match t {
            QTok::Ident(v) => s.push_str(v),
            QTok::Punct(c) => s.push(*c),
            QTok::Lit(l) => s.push_str(l),
            QTok::Interp(v) => {
                s.push('#');
                s.push_str(v)
            }
            QTok::Rep(b, sep) => {
                s.push_str("#(");
                s.push_str(&canon(b));
                s.push(')');
                if let Some(c) = sep {
                    s.push(*c);
                }
                s.push('*');
            }
            QTok::Group(d, b) => {
                let (o, c) = match d {
                    '(' => ("(", ")"),
                    '{' => ("{", "}"),
                    '[' => ("[", "]"),
                    _ => ("", ""),
                };
                s.push_str(o);
                s.push_str(&canon(b));
                s.push_str(c);
            }
        }
    }
    s
}

/// Keys (and nested shape) emitted inside `#[rasn( ... )]` attributes literally present in a template.
/// Returns the token lists found inside `rasn(...)`.
pub fn rasn_attr_bodies(q: &[QTok], out: &mut Vec<Vec<QTok>>) {
    let mut i = 0;
    while i < q.len() {
        if let QTok::Punct('#') = q[i] {
            if let Some(QTok::Group('[', inner)) = q.get(i + 1) {
                if let (Some(QTok::Ident(id)), Some(QTok::Group('(', body))) = (inner.first(), inner.get(1)) {
                    if id == "rasn" {
                        out.push(body.clone());
                    }
                }
            }
        }
        match &q[i] {
            QTok::Rep(b, _) | QTok::Group(_, b) => rasn_attr_bodies(b, out),
            _ => {}
        }
        i += 1;
    }
}

/// split a token list at top-level commas
pub fn split_commas(q: &[QTok]) -> Vec<Vec<QTok>> {
    let mut out = vec![vec![]];
    for t in q {
        if let QTok::Punct(',') = t {
            out.push(vec![]);
        } else {
            out.last_mut().unwrap().push(t.clone());
        }
    }
    out.retain(|v| !v.is_empty());
    out
}
