mod eval;
mod mir;
mod model;
mod nomchars;
mod nomx;
mod quotex;
mod report;
mod rules;

use std::path::PathBuf;

fn main() {
    let args: Vec<String> = std::env::args().collect();
    if args.len() < 2 {
        eprintln!("usage: asnlint <Cnn|all> [--tier quick|thorough] [--repo DIR] [--verif DIR] [--facts FILE]");
        std::process::exit(2);
    }
    let prop = args[1].clone();
    if prop == "tok" {
        // development aid: print the normalised token text of a fn body
        let m = model::Model::load(&PathBuf::from(args.get(3).cloned().unwrap_or("/repo".into()))).unwrap();
        for f in m.fns.iter().filter(|f| f.name == args[2]) {
            println!("== {}\n{}", f.key, model::tok(&f.block));
        }
        return;
    }
    let mut tier = std::env::var("VERIF_TIER").unwrap_or_else(|_| "quick".into());
    let mut repo = PathBuf::from("/repo");
    let mut verif = PathBuf::from("/verif");
    let mut facts: Option<PathBuf> = None;
    let mut i = 2;
    while i < args.len() {
        match args[i].as_str() {
            "--tier" => {
                tier = args[i + 1].clone();
                i += 1;
            }
            "--repo" => {
                repo = PathBuf::from(&args[i + 1]);
                i += 1;
            }
            "--verif" => {
                verif = PathBuf::from(&args[i + 1]);
                i += 1;
            }
            "--facts" => {
                facts = Some(PathBuf::from(&args[i + 1]));
                i += 1;
            }
            o => {
                eprintln!("unknown argument {}", o);
                std::process::exit(2);
            }
        }
        i += 1;
    }
    if tier != "quick" && tier != "thorough" {
        tier = "quick".into();
    }
    let mut ctx = report::Ctx::new(&prop, &tier, &verif);
    ctx.engines.push("E-SRC asnlint (syn over unexpanded source)".into());
    let m = match model::Model::load(&repo) {
        Ok(m) => m,
        Err(e) => {
            ctx.fail_closed("model", &e);
            std::process::exit(ctx.finish());
        }
    };
    eval::STRUCT_NAMES.with(|n| {
        for st in &m.structs {
            n.borrow_mut().insert(st.name.clone());
        }
    });
    let facts_json = facts.as_ref().and_then(|p| std::fs::read_to_string(p).ok()).and_then(|s| serde_json::from_str::<serde_json::Value>(&s).ok());
    if facts.is_some() && facts_json.is_none() {
        ctx.fail_closed("facts", "MIR fact file missing or unreadable (the driver did not run)");
        std::process::exit(ctx.finish());
    }
    if facts_json.is_some() {
        ctx.engines.push("E-MIR mirscan (rustc_private driver, MIR facts)".into());
    }
    let ok = rules::dispatch(&prop, &m, &mut ctx, facts_json.as_ref());
    if !ok {
        eprintln!("unknown property {}", prop);
        std::process::exit(2);
    }
    std::process::exit(ctx.finish());
}
