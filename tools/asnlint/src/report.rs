//! Obligations, violations, known findings, evidence.
use serde_json::{json, Value};
use std::collections::{BTreeMap, BTreeSet};
use std::path::{Path, PathBuf};
use std::time::Instant;

macro_rules! out {
    ($($a:tt)*) => {{
        use std::io::Write as _;
        let _ = writeln!(std::io::stdout(), $($a)*);
    }};
}

#[derive(Clone, Debug)]
pub struct Violation {
    pub rule: String,
    /// line-free instance key (no whitespace)
    pub key: String,
    pub file: String,
    pub line: usize,
    pub msg: String,
}

pub struct Ctx {
    pub property: String,
    pub tier: String,
    pub verif: PathBuf,
    pub start: Instant,
    pub violations: Vec<Violation>,
    /// rule -> (instances examined, non-trivial instances (distinct keys))
    pub obligations: BTreeMap<String, (usize, BTreeSet<String>)>,
    pub samples: Vec<Value>,
    pub floors: Vec<(String, usize, usize)>,
    pub anchors: Vec<String>,
    pub functions: BTreeSet<String>,
    pub notes: Vec<String>,
    pub extra: BTreeMap<String, Value>,
    pub explanation: String,
    pub assumptions: Vec<String>,
    pub rule_text: Vec<String>,
    pub engines: Vec<String>,
}

pub fn sanitize_key(s: &str) -> String {
    let mut out = String::new();
    for c in s.chars() {
        if c.is_whitespace() {
            if !out.ends_with('_') {
                out.push('_');
            }
        } else {
            out.push(c);
        }
    }
    out
}

impl Ctx {
    pub fn new(property: &str, tier: &str, verif: &Path) -> Ctx {
        Ctx {
            property: property.to_string(),
            tier: tier.to_string(),
            verif: verif.to_path_buf(),
            start: Instant::now(),
            violations: vec![],
            obligations: BTreeMap::new(),
            samples: vec![],
            floors: vec![],
            anchors: vec![],
            functions: BTreeSet::new(),
            notes: vec![],
            extra: BTreeMap::new(),
            explanation: String::new(),
            assumptions: vec![],
            rule_text: vec![],
            engines: vec![],
        }
    }

    /// Record that one rule instance was examined. `nontrivial` instances carry a real obligation.
    pub fn oblige(&mut self, rule: &str, key: &str, nontrivial: bool) {
        let e = self.obligations.entry(rule.to_string()).or_default();
        e.0 += 1;
        if nontrivial {
            e.1.insert(sanitize_key(key));
        }
    }

    /// bulk-count trivially discharged instances (examined, nothing to decide)
    pub fn oblige_n(&mut self, rule: &str, n: usize) {
        self.obligations.entry(rule.to_string()).or_default().0 += n;
    }

    pub fn sample(&mut self, v: Value) {
        if self.samples.len() < 40 {
            self.samples.push(v);
        }
    }

    pub fn func(&mut self, key: &str) {
        self.functions.insert(key.to_string());
    }

    pub fn anchor(&mut self, what: &str) {
        self.anchors.push(what.to_string());
    }

    pub fn violate(&mut self, rule: &str, key: &str, file: &str, line: usize, msg: &str) {
        self.violations.push(Violation {
            rule: rule.to_string(),
            key: sanitize_key(key),
            file: file.to_string(),
            line,
            msg: msg.to_string(),
        });
    }

    /// Anchor or analysis failure: fail closed.
    pub fn fail_closed(&mut self, rule: &str, what: &str) {
        // the key drops a leading "[instance]: " so that one unsupported construct is one report
        let short = match (what.starts_with('['), what.find("]: ")) {
            (true, Some(i)) => &what[i + 3..],
            _ => what,
        };
        let short: String = short.chars().take(120).collect();
        self.violate(rule, &format!("analysis-failure:{}", short), "", 0, &format!("cannot analyse: {}", what));
    }

    /// A rule must have found at least `floor` instances (confirmed by hand on the pinned tree).
    pub fn floor(&mut self, rule: &str, found: usize, floor: usize) {
        self.floors.push((rule.to_string(), found, floor));
        if found < floor {
            self.violate(
                rule,
                &format!("floor:{}", rule),
                "",
                0,
                &format!("rule matched {} instances, fewer than the {} confirmed by hand on the pinned tree (a rule that matches nothing passes vacuously)", found, floor),
            );
        }
    }

    pub fn rule(&mut self, text: &str) {
        self.rule_text.push(text.to_string());
    }

    pub fn finish(mut self) -> i32 {
        let known = load_known(&self.verif, &self.property);
        let mut seen = BTreeSet::new();
        self.violations.retain(|v| seen.insert(format!("{}:{}", v.rule, v.key)));
        // local before global: violations with a file first, sorted by file/line
        self.violations.sort_by(|a, b| (a.file.is_empty(), &a.file, a.line).cmp(&(b.file.is_empty(), &b.file, b.line)));
        let replay_dir = self.verif.join("evidence/replay");
        let _ = std::fs::create_dir_all(&replay_dir);
        // clean old replay files of this property
        if let Ok(rd) = std::fs::read_dir(&replay_dir) {
            for e in rd.flatten() {
                if e.file_name().to_string_lossy().starts_with(&format!("{}-", self.property)) {
                    let _ = std::fs::remove_file(e.path());
                }
            }
        }
        let mut new_violations = 0usize;
        let mut known_hit = vec![];
        let mut k = 0;
        for v in &self.violations {
            let full = format!("{}:{}", v.rule, v.key);
            if let Some(what) = known.get(&full) {
                out!("KNOWN-FINDING: property={} {} [{}] {}:{}", self.property, what, full, v.file, v.line);
                known_hit.push(json!({"key": full, "what": what, "file": v.file, "line": v.line}));
            } else {
                k += 1;
                let path = replay_dir.join(format!("{}-{}.json", self.property, k));
                let rec = json!({
                    "property": self.property, "rule": v.rule, "key": v.key,
                    "file": v.file, "line": v.line, "message": v.msg,
                });
                let _ = std::fs::write(&path, serde_json::to_string_pretty(&rec).unwrap());
                out!("{}:{}: [{}] {} (key {})", v.file, v.line, v.rule, v.msg, full);
                out!("VIOLATION property={} replay={}", self.property, path.display());
                new_violations += 1;
            }
        }
        let stale: Vec<String> = known
            .keys()
            .filter(|k| !self.violations.iter().any(|v| &format!("{}:{}", v.rule, v.key) == *k))
            .cloned()
            .collect();
        for s in &stale {
            out!("note: known finding no longer observed (stale entry): {}", s);
        }

        let evaluations: usize = self.obligations.values().map(|v| v.0).sum();
        let distinct: usize = self.obligations.values().map(|v| v.1.len()).sum();
        let per_rule: BTreeMap<String, Value> = self
            .obligations
            .iter()
            .map(|(r, (n, d))| (r.clone(), json!({"instances": n, "nontrivial_distinct": d.len()})))
            .collect();
        let mut coverage = json!({
            "explanation": self.explanation,
            "evaluations": evaluations,
            "distinct_nontrivial": distinct,
            "rule": self.rule_text.join(" | "),
            "samples": self.samples,
            "obligations": evaluations,
            "discharged": evaluations.saturating_sub(self.violations.len()),
            "per_rule": per_rule,
            "floors": self.floors.iter().map(|(r, f, fl)| json!({"rule": r, "found": f, "floor": fl})).collect::<Vec<_>>(),
            "anchors": self.anchors,
            "functions_analysed": self.functions.len(),
            "functions": self.functions.iter().take(60).collect::<Vec<_>>(),
            "known_findings_observed": known_hit,
            "stale_known_entries": stale,
            "engines": self.engines,
            "notes": self.notes,
        });
        for (k, v) in &self.extra {
            coverage[k] = v.clone();
        }
        if let Ok(p) = std::env::var("ASNLINT_SELFTEST") {
            if let Some(v) = std::fs::read_to_string(&p).ok().and_then(|s| serde_json::from_str::<Value>(&s).ok()) {
                let arr = v.as_array().cloned().unwrap_or_default();
                let ran = arr.iter().filter(|r| r["outcome"] == "fired" || r["outcome"] == "MISSED").count();
                let fired = arr.iter().filter(|r| r["outcome"] == "fired").count();
                coverage["selftest"] = json!({"mutants_run": ran, "fired": fired, "details": arr});
            }
        }
        if let Ok(w) = std::env::var("ASNLINT_WITNESS") {
            if !w.is_empty() {
                coverage["compile_fail_witnesses"] = json!(w);
            }
        }
        let ev = json!({
            "property_id": self.property,
            "tier": self.tier,
            "seed": std::env::var("VERIF_SEED").ok().and_then(|s| s.parse::<i64>().ok()).unwrap_or(0),
            "level": "other",
            "coverage": coverage,
            "assumptions": self.assumptions,
            "wall_s": self.start.elapsed().as_secs_f64(),
            "violations": new_violations,
        });
        let evdir = self.verif.join("evidence");
        let _ = std::fs::create_dir_all(&evdir);
        let _ = std::fs::write(
            evdir.join(format!("{}.json", self.property)),
            serde_json::to_string_pretty(&ev).unwrap() + "\n",
        );
        out!(
            "{}: {} rule instances examined ({} non-trivial, {} rules), {} known finding(s), {} new violation(s)",
            self.property,
            evaluations,
            distinct,
            self.obligations.len(),
            self.violations.len() - new_violations,
            new_violations
        );
        if new_violations > 0 {
            1
        } else {
            0
        }
    }
}

/// `finding: property=<id> key=<rule>:<key> <what fails>`; `fixed:` lines suppress nothing.
pub fn load_known(verif: &Path, property: &str) -> BTreeMap<String, String> {
    let mut m = BTreeMap::new();
    let Ok(text) = std::fs::read_to_string(verif.join("known_findings.txt")) else {
        return m;
    };
    for l in text.lines() {
        let l = l.trim();
        if !l.starts_with("finding:") {
            continue;
        }
        let mut it = l.splitn(4, char::is_whitespace);
        let _ = it.next();
        let p = it.next().unwrap_or("");
        let k = it.next().unwrap_or("");
        let what = it.next().unwrap_or("").to_string();
        if p != format!("property={}", property) {
            continue;
        }
        if let Some(k) = k.strip_prefix("key=") {
            m.insert(k.to_string(), what);
        }
    }
    m
}
