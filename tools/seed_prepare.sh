#!/bin/bash
# seed_prepare.sh <Cnn>... : creates a scratch worktree /tmp/wt/<Cnn> of /repo HEAD and the sub-agent prompt
# /tmp/wt/<Cnn>.prompt.txt (property text + generic instructions; earlier seeded sites are named only so that the
# next change lands somewhere else). Nothing from /verif's checkers is given to the sub-agent.
set -u
mkdir -p /tmp/wt
for P in "$@"; do
  [ -d /tmp/wt/$P ] && git -C /repo worktree remove --force /tmp/wt/$P
  git -C /repo worktree add -q --detach /tmp/wt/$P HEAD
  python3 - "$P" <<'PY'
import json, sys, glob
p = sys.argv[1]
prop = [json.loads(l) for l in open('/verif/properties.jsonl') if json.loads(l)['id'] == p][0]
text = f"{prop['title']}\n\n{prop['statement']}\n\nQuantifier: {prop['quantifier']['text']}"
avoid = []
for f in sorted(glob.glob(f'/verif/seeded/{p}-*/meta.json')):
    avoid.append(json.load(open(f))['change'])
t = open('/verif/tools/seed_prompt.tmpl').read().replace('WORKTREE', f'/tmp/wt/{p}').replace('PROPERTY', text)
if avoid:
    t += "\n\nEarlier rounds already produced the following changes for this property; choose a DIFFERENT function and mechanism (a different clause of the property if it has several):\n" + "\n".join(" - " + a for a in avoid) + "\n"
open(f'/tmp/wt/{p}.prompt.txt', 'w').write(t)
PY
done
git -C /repo worktree list | wc -l
