#!/bin/bash
# builds the analysers offline from files on disk
set -e
cd "$(dirname "$0")"
export CARGO_NET_OFFLINE=true
( cd asnlint && cargo build --release --offline )
( cd mirscan && cargo build --release --offline )
echo "setup ok"
