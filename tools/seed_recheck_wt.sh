#!/bin/bash
# seed_recheck_wt.sh <Cnn> : runs every check's analyser (current binary) on the patched scratch worktree /tmp/wt/<Cnn>
# (facts from the import step) and prints, per property that reports something new, the first key
P="$1"; WT=/tmp/wt/$P; V=/verif; BIN=$V/tools/asnlint/target/release/asnlint
TV=/tmp/wt/$P.verif; rm -rf $TV; mkdir -p $TV; cp -r $V/ref $V/audit $V/known_findings.txt $TV/
for q in C01 C02 C03 C04 C05 C06 C07 C08 C09 C10 C11 C12 C13 C14 C15 C16 C17 C18 C19 C20; do
  EX=""; case "$q" in C08|C11|C12|C16|C20) EX="--facts /tmp/wt/$P.facts.json";; esac
  r=$($BIN $q --repo $WT --verif $TV $EX 2>&1); rc=$?
  if [ $rc -ne 0 ]; then k=$(echo "$r" | grep -v "^KNOWN-FINDING\|^VIOLATION" | grep -o '(key [^)]*)' | head -1 | sed 's/(key //; s/)$//'); echo "$P: $q ($k)"; fi
done
