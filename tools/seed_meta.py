#!/usr/bin/env python3
# seed_meta.py <id> <property> <change> <needs_to_manifest> <caught_by ';'-separated> [demo package]
import json, sys, subprocess
id_, prop, change, needs, caught = sys.argv[1:6]
pkg = sys.argv[6] if len(sys.argv) > 6 else 'rasn-compiler-tests'
head = subprocess.run(['git', '-C', '/repo', 'rev-parse', '--short', 'HEAD'], capture_output=True, text=True).stdout.strip()
d = {"id": id_, "breaks_property": prop, "change": change, "needs_to_manifest": needs,
     "verified": {"applies_to": f"/repo HEAD {head}",
                  "build": "cargo check --all-targets (thorough tier) / cargo build --workspace --offline (sub-agent)",
                  "suite": "cargo test --workspace --offline with the patch, demo aside: passed=342 failed=0 (tools/seed_import.sh)",
                  "demo": f"cargo test --offline -p {pkg} --test seeded_demo : FAILED with the patch, ok without (re-run by me via tools/seed_import.sh)"},
     "checks_run": f"tools/seed_eval.sh {id_} (git -C /repo apply; ./check C01..C20 --tier quick; git checkout -- .)",
     "caught_by": [c.strip() for c in caught.split(';') if c.strip()]}
json.dump(d, open(f'/verif/seeded/{id_}/meta.json', 'w'), indent=1)
# self-test corpus entry
p = '/verif/selftest/corpus.json'
c = json.load(open(p))
c = [m for m in c if m['id'] != 'seed:' + id_]
first = d['caught_by'][0] if d['caught_by'] else ''
# "Cnn (Cnn.rule key...)" -> property + key fragment
import re
mm = re.match(r'(C\d\d) \((\S+)', first)
if mm:
    c.append({'id': 'seed:' + id_, 'property': mm.group(1), 'patch': f'seeded/{id_}/patch.diff', 'expect': mm.group(2).rstrip(');,')})
    json.dump(c, open(p, 'w'), indent=1)
    print('corpus entry:', c[-1])
else:
    print('no corpus entry (no catching check)')
