#!/usr/bin/env python3
# regenerates seeded/INDEX.md from seeded/*/meta.json
import json, glob, os
rows = []
for f in sorted(glob.glob('/verif/seeded/*/meta.json')):
    d = json.load(open(f))
    rows.append((d['id'], d['breaks_property'], d['needs_to_manifest'], '; '.join(d['caught_by'])))
out = ["# Seeded changes (independent sub-agents; each re-verified: compiles, suite passes, demo fails with / passes without)", "",
       "| id | property | what it needs to manifest | caught by |", "|----|----------|---------------------------|-----------|"]
for r in rows:
    out.append("| " + " | ".join(x.replace('|', '\\|') for x in r) + " |")
open('/verif/seeded/INDEX.md', 'w').write("\n".join(out) + "\n")
print(len(rows), "seeds")
