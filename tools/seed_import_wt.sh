#!/bin/bash
# seed_import_wt.sh <Cnn> <seed-id> [asnlint-binary] : like seed_import.sh, but never touches /repo — the sub-agent's worktree
# /tmp/wt/<Cnn> is moved to /repo's current HEAD, the demonstration is re-verified there (passes without the patch, fails
# with it), the suite is run with the patch (demo aside), and every property is evaluated on the patched worktree with the
# given (frozen) analyser binary, so several imports can run side by side while the analyser is being edited.
set -u
P="$1"; ID="$2"; BIN="${3:-/verif/tools/asnlint/target/release/asnlint}"
WT=/tmp/wt/$P
V=/verif
cd "$WT" || exit 2
[ -f SEED/patch.diff ] || { echo "no SEED/patch.diff"; exit 2; }
export CARGO_NET_OFFLINE=true CARGO_TARGET_DIR=$WT/target
PKG=rasn-compiler-tests
[ -f rasn-compiler/tests/seeded_demo.rs ] && PKG=rasn-compiler
FEAT=""
grep -q 'feature = "cli"' SEED/seeded_demo.rs && FEAT="--features cli"
git checkout -q -- . 2>/dev/null
rm -f rasn-compiler/tests/seeded_demo.rs rasn-compiler-tests/tests/seeded_demo.rs
git checkout -q --detach "$(git -C /repo rev-parse HEAD)" || { echo "cannot move worktree to HEAD"; exit 2; }
git apply --check SEED/patch.diff || { echo "patch does not apply to /repo HEAD"; exit 2; }
mkdir -p $PKG/tests
cp SEED/seeded_demo.rs $PKG/tests/seeded_demo.rs
echo "--- without patch (HEAD $(git rev-parse --short HEAD))"
timeout 1500 cargo test --offline -p $PKG $FEAT --test seeded_demo 2>&1 | grep -E "^test |test result|^error" | head -12
git apply SEED/patch.diff
echo "--- with patch"
timeout 1500 cargo test --offline -p $PKG $FEAT --test seeded_demo 2>&1 | grep -E "^test |test result|^error|overflow" | head -12
echo "--- suite with patch (demo aside)"
rm -f $PKG/tests/seeded_demo.rs; [ "$PKG" = rasn-compiler ] && rmdir rasn-compiler/tests 2>/dev/null
timeout 3000 cargo test --offline --workspace --no-fail-fast 2>&1 | grep -E "test result" | awk '{p+=$4; f+=$6} END {print "passed=" p " failed=" f}'
mkdir -p $V/seeded/$ID
cp SEED/patch.diff SEED/seeded_demo.rs $V/seeded/$ID/
[ -f SEED/README.md ] && cp SEED/README.md $V/seeded/$ID/
echo "demo package: $PKG $FEAT"
echo "--- checks (analyser $BIN)"
FACTS=/tmp/wt/$P.facts.json
TV=/tmp/wt/$P.verif
rm -rf $FACTS $TV; mkdir -p $TV
cp -r $V/ref $V/audit $V/known_findings.txt $TV/
$V/tools/run_mirscan.sh $WT $FACTS > /tmp/wt/$P.mirscan.log 2>&1
HIT=""
for q in C01 C02 C03 C04 C05 C06 C07 C08 C09 C10 C11 C12 C13 C14 C15 C16 C17 C18 C19 C20; do
  EX=""
  case "$q" in C08|C11|C12|C16|C20) EX="--facts $FACTS";; esac
  r=$($BIN $q --repo $WT --verif $TV $EX 2>&1); rc=$?
  if [ $rc -ne 0 ]; then HIT="$HIT $q"; echo "== $q"; echo "$r" | grep -v "^KNOWN-FINDING\|^VIOLATION" | grep '(key ' | cut -c1-420 | head -5; fi
done
echo "seed $ID caught by:${HIT:- NONE}"
