//! E-MIR: rustc_private driver that dumps per-body MIR facts as JSON.
//! Injected with RUSTC_WORKSPACE_WRAPPER; analyses only the crates named in MIRSCAN_CRATES.
#![feature(rustc_private)]
extern crate rustc_driver;
extern crate rustc_hir;
extern crate rustc_interface;
extern crate rustc_middle;
extern crate rustc_span;

use rustc_driver::Compilation;
use rustc_hir::def::DefKind;
use rustc_middle::mir::visit::Visitor;
use rustc_middle::mir::{self, Operand, Rvalue, StatementKind, TerminatorKind};
use rustc_middle::ty::{self, TyCtxt};
use std::fmt::Write as _;

struct Cb {
    out_dir: String,
}

fn esc(s: &str) -> String {
    let mut o = String::with_capacity(s.len() + 2);
    for c in s.chars() {
        match c {
            '"' => o.push_str("\\\""),
            '\\' => o.push_str("\\\\"),
            '\n' => o.push_str("\\n"),
            '\r' => o.push_str("\\r"),
            '\t' => o.push_str("\\t"),
            c if (c as u32) < 0x20 => {
                let _ = write!(o, "\\u{:04x}", c as u32);
            }
            c => o.push(c),
        }
    }
    o
}

fn span_info(tcx: TyCtxt<'_>, sp: rustc_span::Span) -> (String, usize, Vec<String>) {
    let sm = tcx.sess.source_map();
    // user-written location: outermost call site
    let root = sp.source_callsite();
    let loc = sm.lookup_char_pos(root.lo());
    let file = match &loc.file.name {
        rustc_span::FileName::Real(r) => r
            .local_path()
            .map(|p| p.to_string_lossy().to_string())
            .unwrap_or_default(),
        other => format!("{:?}", other),
    };
    let macros: Vec<String> = sp
        .macro_backtrace()
        .filter_map(|e| match e.kind {
            rustc_span::ExpnKind::Macro(_, name) => Some(name.to_string()),
            rustc_span::ExpnKind::Desugaring(d) => Some(format!("desugar:{:?}", d)),
            rustc_span::ExpnKind::AstPass(_) => Some("astpass".to_string()),
            _ => None,
        })
        .collect();
    // keep user-facing macro names only, deduplicated, outermost last
    let mut compact: Vec<String> = vec![];
    for m in macros {
        if m.starts_with("$crate::") {
            continue;
        }
        if !compact.contains(&m) {
            compact.push(m);
        }
    }
    let macros = compact;
    (file, loc.line, macros)
}

struct BodyScan<'a, 'tcx> {
    tcx: TyCtxt<'tcx>,
    body: &'a mir::Body<'tcx>,
    refs: Vec<String>,
    closures: Vec<String>,
}

impl<'a, 'tcx> Visitor<'tcx> for BodyScan<'a, 'tcx> {
    fn visit_const_operand(&mut self, c: &mir::ConstOperand<'tcx>, _loc: mir::Location) {
        if let ty::FnDef(did, _) = c.const_.ty().kind() {
            self.refs.push(self.tcx.def_path_str(*did));
        }
    }
    fn visit_rvalue(&mut self, rv: &Rvalue<'tcx>, loc: mir::Location) {
        if let Rvalue::Aggregate(kind, _) = rv {
            match &**kind {
                mir::AggregateKind::Closure(did, _) | mir::AggregateKind::Coroutine(did, _) => {
                    self.closures.push(self.tcx.def_path_str(*did));
                }
                _ => {}
            }
        }
        self.super_rvalue(rv, loc);
    }
}

fn place_self_field<'tcx>(tcx: TyCtxt<'tcx>, body: &mir::Body<'tcx>, place: &mir::Place<'tcx>) -> Option<String> {
    // field chain of any place, each struct field as `Adt.field`
    let mut ty = body.local_decls[place.local].ty;
    let mut names = vec![];
    for elem in place.projection.iter() {
        match elem {
            mir::ProjectionElem::Deref => {
                ty = match ty.kind() {
                    ty::Ref(_, t, _) => *t,
                    ty::RawPtr(t, _) => *t,
                    _ => return None,
                };
            }
            mir::ProjectionElem::Downcast(..) => {
                // enum variant: give up on names below, keep what we have
                break;
            }
            mir::ProjectionElem::Field(f, fty) => {
                if let ty::Adt(adt, _) = ty.kind() {
                    if adt.is_struct() && adt.did().is_local() {
                        let fd = &adt.non_enum_variant().fields[f];
                        let an = tcx.item_name(adt.did());
                        names.push(format!("{}.{}", an, fd.name));
                    }
                }
                ty = fty;
            }
            _ => break,
        }
    }
    if names.is_empty() {
        None
    } else {
        Some(names.join("/"))
    }
}

/// follow `local = copy/move place` definitions (single assignment) back to a field chain
fn resolve_source<'tcx>(tcx: TyCtxt<'tcx>, body: &mir::Body<'tcx>, place: mir::Place<'tcx>, depth: usize) -> Option<String> {
    if let Some(c) = place_self_field(tcx, body, &place) {
        return Some(c);
    }
    if depth == 0 {
        return None;
    }
    let mut def: Option<mir::Place<'tcx>> = None;
    let mut n = 0;
    for data in body.basic_blocks.iter() {
        for st in &data.statements {
            if let StatementKind::Assign(b) = &st.kind {
                let (p, rv) = &**b;
                if p.local == place.local && p.projection.is_empty() {
                    n += 1;
                    if let Rvalue::Use(op, ..) = rv {
                        def = op.place();
                    } else if let Rvalue::Ref(_, _, pl) = rv {
                        def = Some(*pl);
                    }
                }
            }
        }
    }
    if n == 1 {
        if let Some(d) = def {
            return resolve_source(tcx, body, d, depth - 1);
        }
    }
    None
}

fn operand_desc<'tcx>(tcx: TyCtxt<'tcx>, body: &mir::Body<'tcx>, op: &Operand<'tcx>) -> String {
    match op {
        Operand::Copy(p) | Operand::Move(p) => {
            let ty = p.ty(&body.local_decls, tcx).ty;
            format!("{:?}:{}", p, ty)
        }
        Operand::Constant(c) => format!("const {}", c.const_.ty()),
        #[allow(unreachable_patterns)]
        _ => "op".to_string(),
    }
}

impl rustc_driver::Callbacks for Cb {
    fn after_analysis<'tcx>(&mut self, _c: &rustc_interface::interface::Compiler, tcx: TyCtxt<'tcx>) -> Compilation {
        let krate = tcx.crate_name(rustc_hir::def_id::LOCAL_CRATE).to_string();
        let crate_types: Vec<String> = tcx.crate_types().iter().map(|t| format!("{:?}", t)).collect();
        let mut out = String::new();
        out.push_str("{\n");
        let _ = write!(out, "\"crate\":\"{}\",\"crate_types\":\"{}\",\n\"bodies\":[\n", esc(&krate), esc(&crate_types.join(",")));
        let mut first_body = true;
        let mut n_bodies = 0usize;
        for ldid in tcx.mir_keys(()).iter() {
            let did = ldid.to_def_id();
            let kind = tcx.def_kind(did);
            if !matches!(kind, DefKind::Fn | DefKind::AssocFn | DefKind::Closure) {
                continue;
            }
            if !tcx.is_mir_available(did) {
                continue;
            }
            let body: &mir::Body<'tcx> = tcx.optimized_mir(did);
            n_bodies += 1;
            let path = tcx.def_path_str(did);
            let (file, line, _) = span_info(tcx, tcx.def_span(did));
            let is_test = tcx
                .get_all_attrs(did)
                .iter()
                .any(|_| false);
            let _ = is_test;
            // trait impl info
            let mut impl_trait = String::new();
            let mut self_ty = String::new();
            if kind == DefKind::AssocFn {
                let parent = tcx.parent(did);
                if matches!(tcx.def_kind(parent), DefKind::Impl { .. }) {
                    if let Some(tr) = tcx.impl_opt_trait_ref(parent) {
                        impl_trait = tcx.def_path_str(tr.skip_binder().def_id);
                    }
                    self_ty = format!("{}", tcx.type_of(parent).skip_binder());
                }
            }
            let vis_pub = if matches!(kind, DefKind::Fn | DefKind::AssocFn) {
                tcx.visibility(did).is_public()
            } else {
                false
            };
            if !first_body {
                out.push_str(",\n");
            }
            first_body = false;
            let _ = write!(
                out,
                "{{\"path\":\"{}\",\"file\":\"{}\",\"line\":{},\"kind\":\"{:?}\",\"pub\":{},\"impl_trait\":\"{}\",\"self_ty\":\"{}\",\"arg_count\":{},",
                esc(&path), esc(&file), line, kind, vis_pub, esc(&impl_trait), esc(&self_ty), body.arg_count
            );
            let typing_env = ty::TypingEnv::post_analysis(tcx, did);
            // references and closures
            let mut scan = BodyScan { tcx, body, refs: vec![], closures: vec![] };
            scan.visit_body(body);
            scan.refs.sort();
            scan.refs.dedup();
            scan.closures.sort();
            scan.closures.dedup();
            let _ = write!(
                out,
                "\"fn_refs\":[{}],\"closures\":[{}],",
                scan.refs.iter().map(|s| format!("\"{}\"", esc(s))).collect::<Vec<_>>().join(","),
                scan.closures.iter().map(|s| format!("\"{}\"", esc(s))).collect::<Vec<_>>().join(",")
            );
            // blocks
            out.push_str("\"blocks\":[");
            for (bb, data) in body.basic_blocks.iter_enumerated() {
                if bb.as_usize() > 0 {
                    out.push(',');
                }
                let term = data.terminator();
                let succ: Vec<String> = term.successors().map(|s| s.as_usize().to_string()).collect();
                let (tfile, tline, tmacros) = span_info(tcx, term.source_info.span);
                let _ = tfile;
                let mut extra = String::new();
                let tkind = match &term.kind {
                    TerminatorKind::Call { func, args, target, unwind, .. } => {
                        let mut callee = String::new();
                        let mut resolved = false;
                        let mut callee_crate = String::new();
                        let mut generic_args = String::new();
                        if let Some((def_id, gargs)) = func.const_fn_def() {
                            generic_args = format!("{:?}", gargs);
                            match ty::Instance::try_resolve(tcx, typing_env, def_id, gargs) {
                                Ok(Some(inst)) => {
                                    callee = tcx.def_path_str(inst.def_id());
                                    callee_crate = tcx.crate_name(inst.def_id().krate).to_string();
                                    resolved = true;
                                    if let ty::InstanceKind::Virtual(..) = inst.def {
                                        resolved = false;
                                    }
                                }
                                _ => {
                                    callee = tcx.def_path_str(def_id);
                                    callee_crate = tcx.crate_name(def_id.krate).to_string();
                                }
                            }
                        } else {
                            callee = format!("<indirect {}>", operand_desc(tcx, body, func));
                        }
                        let argd: Vec<String> = args.iter().map(|a| format!("\"{}\"", esc(&operand_desc(tcx, body, &a.node)))).collect();
                        let normal_target = target.map(|t| t.as_usize() as i64).unwrap_or(-1);
                        let _ = unwind;
                        let _ = write!(
                            extra,
                            ",\"callee\":\"{}\",\"callee_crate\":\"{}\",\"resolved\":{},\"gargs\":\"{}\",\"args\":[{}],\"target\":{}",
                            esc(&callee), esc(&callee_crate), resolved, esc(&generic_args), argd.join(","), normal_target
                        );
                        "call"
                    }
                    TerminatorKind::Assert { msg, expected, target, .. } => {
                        let k = match &**msg {
                            mir::AssertKind::BoundsCheck { .. } => "bounds".to_string(),
                            mir::AssertKind::Overflow(op, l, _) => format!("overflow:{:?}:{}", op, l.ty(&body.local_decls, tcx)),
                            mir::AssertKind::OverflowNeg(o) => format!("overflow:Neg:{}", o.ty(&body.local_decls, tcx)),
                            mir::AssertKind::DivisionByZero(_) => "div_by_zero".to_string(),
                            mir::AssertKind::RemainderByZero(_) => "rem_by_zero".to_string(),
                            other => format!("other:{:?}", std::mem::discriminant(other)),
                        };
                        let _ = write!(extra, ",\"assert\":\"{}\",\"expected\":{},\"target\":{}", esc(&k), expected, target.as_usize());
                        "assert"
                    }
                    TerminatorKind::SwitchInt { discr, targets } => {
                        let vals: Vec<String> = targets.iter().map(|(v, t)| format!("[{},{}]", v, t.as_usize())).collect();
                        let _ = write!(extra, ",\"discr\":\"{}\",\"cases\":[{}],\"otherwise\":{}", esc(&operand_desc(tcx, body, discr)), vals.join(","), targets.otherwise().as_usize());
                        "switch"
                    }
                    TerminatorKind::Return => "return",
                    TerminatorKind::Goto { .. } => "goto",
                    TerminatorKind::Drop { .. } => "drop",
                    TerminatorKind::Unreachable => "unreachable",
                    TerminatorKind::UnwindResume => "resume",
                    TerminatorKind::UnwindTerminate(_) => "terminate",
                    TerminatorKind::FalseEdge { .. } => "false_edge",
                    TerminatorKind::FalseUnwind { .. } => "false_unwind",
                    _ => "other",
                };
                // statements of interest: assignments to / reads of self fields
                let mut stm = vec![];
                for (si, st) in data.statements.iter().enumerate() {
                    if let StatementKind::Assign(b) = &st.kind {
                        let (place, rv) = &**b;
                        if let Rvalue::Cast(kind, _, _) = rv {
                            if matches!(kind, mir::CastKind::PointerExposeProvenance) {
                                let (_, sl, _) = span_info(tcx, st.source_info.span);
                                stm.push(format!("{{\"i\":{},\"c\":\"ptr2int\",\"line\":{}}}", si, sl));
                            }
                        }
                        if let Some(f) = place_self_field(tcx, body, place) {
                            let src = match rv {
                                Rvalue::Use(op, ..) => {
                                    let mut d = operand_desc(tcx, body, op);
                                    if let Some(pl) = op.place() {
                                        if let Some(chain) = resolve_source(tcx, body, pl, 3) {
                                            d = format!("{} <- {}", d, chain);
                                        }
                                    }
                                    d
                                }
                                other => format!("{:?}", other),
                            };
                            let (_, sl, _) = span_info(tcx, st.source_info.span);
                            stm.push(format!("{{\"i\":{},\"w\":\"{}\",\"src\":\"{}\",\"line\":{}}}", si, esc(&f), esc(&src), sl));
                        }
                        // reads of self fields
                        let mut reads = vec![];
                        struct R<'b, 'tcx> {
                            tcx: TyCtxt<'tcx>,
                            body: &'b mir::Body<'tcx>,
                            out: &'b mut Vec<String>,
                        }
                        impl<'b, 'tcx> Visitor<'tcx> for R<'b, 'tcx> {
                            fn visit_place(&mut self, p: &mir::Place<'tcx>, ctx: mir::visit::PlaceContext, _l: mir::Location) {
                                if ctx.is_use() && !ctx.is_mutating_use() {
                                    if let Some(f) = place_self_field(self.tcx, self.body, p) {
                                        self.out.push(f);
                                    }
                                }
                            }
                        }
                        let mut r = R { tcx, body, out: &mut reads };
                        r.visit_rvalue(rv, mir::Location { block: bb, statement_index: si });
                        for f in reads {
                            stm.push(format!("{{\"i\":{},\"r\":\"{}\"}}", si, esc(&f)));
                        }
                    }
                }
                let _ = write!(
                    out,
                    "{{\"t\":\"{}\",\"succ\":[{}],\"line\":{},\"macros\":[{}],\"cleanup\":{}{},\"st\":[{}]}}",
                    tkind,
                    succ.join(","),
                    tline,
                    tmacros.iter().map(|m| format!("\"{}\"", esc(m))).collect::<Vec<_>>().join(","),
                    data.is_cleanup,
                    extra,
                    stm.join(",")
                );
            }
            out.push_str("]}");
        }
        out.push_str("\n],\n\"statics\":[");
        let mut first = true;
        for id in tcx.hir_crate_items(()).free_items() {
            let did = id.owner_id.to_def_id();
            if let DefKind::Static { mutability, nested, .. } = tcx.def_kind(did) {
                if nested {
                    continue;
                }
                let ty = tcx.type_of(did).skip_binder();
                let (file, line, _) = span_info(tcx, tcx.def_span(did));
                let freeze = ty.is_freeze(tcx, ty::TypingEnv::fully_monomorphized());
                if !first {
                    out.push(',');
                }
                first = false;
                let _ = write!(
                    out,
                    "{{\"path\":\"{}\",\"mutable\":{},\"ty\":\"{}\",\"freeze\":{},\"file\":\"{}\",\"line\":{}}}",
                    esc(&tcx.def_path_str(did)),
                    mutability.is_mut(),
                    esc(&format!("{}", ty)),
                    freeze,
                    esc(&file),
                    line
                );
            }
        }
        out.push_str("],\n");
        // keyword table of this compiler, per edition
        out.push_str("\"keywords\":{");
        {
            use rustc_span::edition::Edition;
            let mut parts = vec![];
            for (ename, ed) in [("2015", Edition::Edition2015), ("2018", Edition::Edition2018), ("2021", Edition::Edition2021), ("2024", Edition::Edition2024)] {
                let mut kws = vec![];
                for i in 0..200u32 {
                    let sym = rustc_span::Symbol::new(i);
                    let s = sym.as_str();
                    if s.is_empty() || s.starts_with('$') || s.starts_with('{') {
                        continue;
                    }
                    if sym.is_reserved(|| ed) {
                        kws.push(format!("\"{}\"", esc(s)));
                    }
                }
                parts.push(format!("\"{}\":[{}]", ename, kws.join(",")));
            }
            out.push_str(&parts.join(","));
        }
        out.push_str("},\n");
        let _ = write!(out, "\"n_bodies\":{}\n}}\n", n_bodies);
        let cfg = if crate_types.iter().any(|t| t.contains("Executable")) { "bin" } else { "lib" };
        let path = format!("{}/{}-{}-{}.json", self.out_dir, krate, cfg, std::process::id());
        std::fs::write(&path, out).expect("write facts");
        Compilation::Continue
    }
}

fn main() {
    let mut args: Vec<String> = std::env::args().collect();
    // RUSTC_WORKSPACE_WRAPPER: argv[1] is the real rustc path
    args.remove(1);
    let out_dir = std::env::var("MIRSCAN_OUT").unwrap_or_else(|_| "/tmp".into());
    let wanted = std::env::var("MIRSCAN_CRATES").unwrap_or_else(|_| "rasn_compiler,rasn_compiler_derive,rasn_compiler_cli".into());
    let crate_name = args
        .iter()
        .position(|a| a == "--crate-name")
        .and_then(|i| args.get(i + 1))
        .cloned()
        .unwrap_or_default();
    let is_test = args.iter().any(|a| a == "--test");
    let mut cb = Cb { out_dir };
    if wanted.split(',').any(|w| w == crate_name) && !is_test {
        rustc_driver::run_compiler(&args, &mut cb);
    } else {
        struct Noop;
        impl rustc_driver::Callbacks for Noop {}
        rustc_driver::run_compiler(&args, &mut Noop);
    }
}
