#!/bin/bash
# run_mirscan.sh <repo> <out.json>: run the MIR driver over rasn-compiler (lib + cli bin) and rasn-compiler-derive
# in a fresh target dir (cargo's freshness cache would skip the wrapper) and merge the per-crate fact files.
set -e
REPO="$1"; OUT="$2"
HERE="$(cd "$(dirname "$0")" && pwd)"
DRV="$HERE/mirscan/target/release/mirscan"
SYSROOT="$(rustc +nightly --print sysroot)"
T="$(mktemp -d /tmp/mirscan.XXXXXX)"
trap 'rm -rf "$T"' EXIT
mkdir -p "$T/facts" "$T/target"
cd "$REPO"
export CARGO_NET_OFFLINE=true
LD_LIBRARY_PATH="$SYSROOT/lib" RUSTFLAGS="-Zmir-opt-level=0 -Awarnings" RUSTC_WORKSPACE_WRAPPER="$DRV" \
  MIRSCAN_OUT="$T/facts" CARGO_TARGET_DIR="$T/target" \
  cargo +nightly check --offline -p rasn-compiler --features cli -p rasn-compiler-derive 2>&1 | tail -5
ls "$T/facts"
python3 - "$T/facts" "$OUT" <<'PY'
import sys,json,glob,os
d,out=sys.argv[1:3]
crates=[]
for f in sorted(glob.glob(os.path.join(d,'*.json'))):
    crates.append(json.load(open(f)))
names=sorted(c['crate']+':'+('bin' if 'Executable' in c['crate_types'] else 'lib') for c in crates)
need={'rasn_compiler:lib','rasn_compiler_cli:bin','rasn_compiler_derive:lib'}
if not need.issubset(set(names)):
    print('missing crates in facts:',need-set(names)); sys.exit(1)
json.dump({'crates':crates},open(out,'w'))
print('facts:',names,sum(c['n_bodies'] for c in crates),'bodies')
PY
