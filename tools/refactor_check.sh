#!/bin/bash
# refactor_check.sh <worktree> : development aid. Runs every property's analyser on a scratch worktree that holds a
# BEHAVIOUR-PRESERVING refactoring of the repository (written by an independent sub-agent, output equality checked on the
# repository's module collection). Every report that is not a known finding is a false alarm of the machinery.
WT="$1"; V=/verif; BIN=$V/tools/asnlint/target/release/asnlint
TV=$(mktemp -d /tmp/rfv.XXXXXX); cp -r $V/ref $V/audit $V/known_findings.txt $TV/
FACTS=$TV/facts.json
$V/tools/run_mirscan.sh "$WT" $FACTS > $TV/mirscan.log 2>&1
for q in C01 C02 C03 C04 C05 C06 C07 C08 C09 C10 C11 C12 C13 C14 C15 C16 C17 C18 C19 C20; do
  EX=""; case "$q" in C08|C11|C12|C16|C20) EX="--facts $FACTS";; esac
  r=$($BIN $q --repo "$WT" --verif $TV $EX 2>&1); rc=$?
  if [ $rc -ne 0 ]; then echo "== $q"; echo "$r" | grep -v "^KNOWN-FINDING\|^VIOLATION\|^ok" | grep "(key " | cut -c1-330; fi
done
rm -rf $TV
echo "done $(basename $WT)"
