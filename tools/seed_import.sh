#!/bin/bash
# seed_import.sh <Cnn> <seed-id> : development aid for seeded changes produced by a sub-agent in /tmp/wt/<Cnn>.
# Re-verifies the demonstration in the worktree (fails with the patch, passes without), copies SEED/* into
# /verif/seeded/<seed-id>/, and runs every quick check against the patch applied to /repo (tools/seed_eval.sh).
set -u
P="$1"; ID="$2"
WT=/tmp/wt/$P
cd "$WT" || exit 2
[ -f SEED/patch.diff ] || { echo "no SEED/patch.diff"; exit 2; }
PKG=rasn-compiler-tests
[ -f rasn-compiler/tests/seeded_demo.rs ] && PKG=rasn-compiler
git checkout -q -- . 2>/dev/null
mkdir -p $PKG/tests
cp SEED/seeded_demo.rs $PKG/tests/seeded_demo.rs
export CARGO_NET_OFFLINE=true
echo "--- without patch"
timeout 1500 cargo test --offline -p $PKG --test seeded_demo 2>&1 | grep -E "^test |test result|error" | head -12
git apply SEED/patch.diff || { echo "patch does not apply to worktree HEAD"; exit 2; }
echo "--- with patch"
timeout 1500 cargo test --offline -p $PKG --test seeded_demo 2>&1 | grep -E "^test |test result|error|overflow" | head -12
echo "--- suite with patch (demo aside)"
mv $PKG/tests/seeded_demo.rs /tmp/wt/$P.demo.rs
timeout 3000 cargo test --offline --workspace 2>&1 | grep -E "test result" | awk '{p+=$4; f+=$6} END {print "passed=" p " failed=" f}'
mv /tmp/wt/$P.demo.rs $PKG/tests/seeded_demo.rs
mkdir -p /verif/seeded/$ID
cp SEED/patch.diff SEED/seeded_demo.rs /verif/seeded/$ID/
[ -f SEED/README.md ] && cp SEED/README.md /verif/seeded/$ID/
echo "demo package: $PKG"
echo "--- checks"
/verif/tools/seed_eval.sh "$ID"
