#!/usr/bin/env python3
"""Regenerates /verif/MANIFEST.json from the table below (single source of truth for claims)."""
import json, os
V = os.path.dirname(os.path.dirname(os.path.abspath(__file__)))
props = [json.loads(l) for l in open(os.path.join(V, 'properties.jsonl'))]

# id -> (engine, technique, level text, level note)
CLAIMS = {
 "C01": ("asnlint", "static analysis: template vocabulary of every quote! body checked against the parsed `rasn::prelude` of the pinned rasn; emitted #[rasn(..)] keys against rasn-derive-impl's accepted keys per position; branch delta of the lazy templates; enumeration of text-to-token sites",
         "Necessary conditions only: every type/trait name the generator emits resolves inside the emitted module, every rasn attribute key is accepted by the pinned derive at the position it is emitted, LazyLock/lazy_static templates and import agree, text-to-token sites do not grow unnoticed. Type-checking of arbitrary generated programs is NOT decided by this family.",
         "Trusted: the registry sources are the versions Cargo.lock pins; Rust prelude list."),
 "C02": ("asnlint", "static analysis: sibling-agreement rule over every ASN1Type pattern (SEQUENCE/SET, SEQUENCE OF/SET OF); adaptor whitelist over component-list iterator chains; kind->type table extraction; guard/emission pairs",
         "Every decision over ASN1Type treats SET like SEQUENCE and SET OF like SEQUENCE OF; no component-list chain filters, reorders or truncates; the ASN.1-kind -> rasn-type tables agree with the reference and each other; Box/set/SetOf/default wrappers are applied under their exact guards. (List conversions and Option<> wrapping are decided under C05.)",
         "Not decided: that the parsed list equals the source list; hoisted names for arbitrary nesting."),
 "C04": ("asnlint", "static analysis: abstract evaluation of fold_constraint_set (helpers inlined) over all order types of two operands on a 6-point end-point alphabet incl. open ends; exhaustive tables for serial combination, rendering and fixed_size",
         "For every pair of value/range operands and each of UNION/INTERSECTION/EXCEPT the folded bound never excludes a permitted value and equals the hull/intersection/base; serial constraints intersect with absent = identity, extensibility sticky; the (min?,max?,ext,size) rendering table and fixed_size are exhaustive.",
         "Not decided: parser precedence/associativity, reference resolution, expressions with 3+ operands, character-string folding."),
 "C07": ("asnlint", "static analysis: exhaustive evaluation of literal tables and tiny pure converters over their whole finite domain (16 hex digits, 256 octets, X.660 arc names, string-type constructors)",
         "Table clauses only: hex/bstring digit tables, both octet<->bit converters for all 256 octets (MSB first), named-bit vector construction, well-known OID arcs and root detection against X.660, string constructor/type agreement, quote unescaping. Everything that depends on literal contents or reference chains is not decided.",
         "Trusted: ref/x660_arcs.json; rasn BitString is MSB-first."),
 "C09": ("asnlint", "static analysis: sibling agreement of the four detector/rewriter traversal pairs of the linker over container variants; insertion-position rule for COMPONENTS OF",
         "Each notation detector and its rewriter descend into the same containers; COMPONENTS OF takes root components only, accepts SET, and is checked for splice position. The equivalence sugared = expanded itself and name-order independence are NOT decided (not applicable to this family).",
         "A thin necessary condition; see DESIGN §5."),
 "C10": ("asnlint", "static analysis: exhaustive variant analysis of every generator dispatch (which IR variants reach an empty result); guard-table vs pattern agreement at each remove/insert site of the linker; fold closures evaluated for Ok/Err; discarded-Result lint",
         "No IR variant outside the documented silent categories can reach an empty output; every removal from the definitions map re-inserts on all accepting branches and each refutable pattern is implied by its guard; per-definition folds turn an Err into exactly one warning and continue; no linker/generator Result is discarded. The bare-name map key is a known finding.",
         "Thorough tier adds a compile_fail witness that CompilerError exposes no bindings."),
 "C13": ("asnlint", "static analysis: abstract interpretation of the lexer's nom combinator expressions (lead-trivia / nullability / trivia-only summaries, wrappers inlined, fixpoint over named parsers); boundary obligations between adjacent operands",
         "At every sequencing boundary of every parser outside lexical (recognize) context, the right operand skips comments and whitespace; the residue is an audited table of intra-token boundaries and 2 known findings. Covers all token boundaries of the grammar source rather than sampled layouts.",
         "Trusted: nom sequencing semantics; multispace accepts CR/LF. Doc-comment attribution excluded by the property."),
 "C14": ("asnlint", "static analysis: abstract evaluation of the enumeral numbering closure (explicit kept, identifier verbatim, dependence on used numbers); def-use of the additions' start value; emission template",
         "Explicit numbers and identifiers are stored unchanged and in order; additions continue from the root; the discriminant emitted is the stored index; numbering-by-position (no dependence on used numbers) is a known finding. The full X.680 §20 algorithm is not decided.",
         "Trusted: fold_many0 applies the closure left to right."),
 "C15": ("asnlint", "static analysis: table extraction from static initialisers (char arrays, code-point ranges) compared cell by cell with X.680 §41 alphabets and canonical order; exhaustive CharacterStringType tables; FROM range index table",
         "Each known-multiplier type's table equals the normative alphabet in code-point order; both known-multiplier lists equal X.691 §30.1; open/closed FROM range ends map to the right indices, inclusive; singletons/ranges rendered as specified. Folding of FROM set expressions is not decided.",
         "Trusted: ref/x680_charsets.json."),
 "C17": ("asnlint", "static analysis: normal-form comparison of the three renderings of a lexer error; who-may-write and def-use dependences of Input's position fields; path flow chain",
         "Display, contextualize() and ReportData show the same line/column/file access paths with no arithmetic; only the constructors and Input::slice write the position, with line += consumed line breaks and offset += consumed length; the source path flows from AsnSource::Path to both renderers. Which position nom selects is not decided.",
         "Text-level normal forms of a handful of small fns; a refactoring of those fns needs the rule updated."),
 "C18": ("asnlint", "static analysis: bracket balance of every TypeScript template after {{ }} unescaping; syntactic-category typing of union producers vs postfix []; abstract evaluation of the member/choice renderers; exhaustive dispatch",
         "Every template is balanced and has one export under the definition's own mangled name; `?` iff not Required, index signature iff extension marker, CHOICE = union of single-key objects, arrays parenthesise unions; EXTENSIBILITY IMPLIED being ignored is a known finding. Declared-or-imported closure of names is not decided.",
         "Trusted: TypeScript precedence of | and []."),
 "C19": ("asnlint", "static analysis: who-may-read table of Config fields; branch delta of the option-dependent quote! templates; derive-set facts",
         "Every option is read only by the fns of its documented aspect; option-dependent templates differ only in the documented tokens and interpolate the same variables; From impls only append after the unchanged CHOICE for unique payload types; required derives always present, user derives merged without duplicates, every type item goes through the merged annotation list.",
         "Trusted: audit/config_reads.json."),
 "C03": ("asnlint", "static analysis: decision-table extraction from the syntax tree (header/keyword/class/Add/format_tag tables), composed over the 48-cell configuration space and compared with X.680; field-coverage and guard truth tables",
         "Exhaustive over the property's own finite configuration space (module default x tag keyword x class) by composing tables extracted from the source, plus coverage of every Option<AsnTag> position by the tagging pass and the renderer, and the automatic_tags guard. Decides these structural clauses, not the DER bytes.",
         "Trusted: rasn's derive semantics of tag(..)/automatic_tags; nom combinator semantics; ref/x680_tagging.json transcription. Explicitness of tagged CHOICE components is don't-care (rasn applies it)."),
 "C05": ("asnlint", "static analysis: abstract evaluation of the lexer->IR conversions over opaque list elements; order-relation analysis of the extension-annotation guards; exhaustive guard tables",
         "The four (root, marker, additions) conversions are evaluated on their syntax tree for every small shape (data-independent code, so sizes 0..2 are exhaustive); the generator's index comparison is decided for every order relation; non_exhaustive and group construction by exhaustive tables.",
         "Trusted: rasn's extension_addition(_group)/non_exhaustive semantics; that nom delivers the components it matched. The parser's run-time behaviour is not decided."),
 "C06": ("asnlint", "static analysis: region-exhaustive abstract interpretation (interval/order domain) of both width selectors' syntax trees; exhaustive enum tables",
         "Both selectors use their inputs order-only (enforced, fails closed), so one representative per region of the constant-induced partition of Z decides containment for all integers and all presence/extensibility combinations; max_restrictive (81 cells), to_tokens, literal rendering by exhaustive tables.",
         "Not decided: that the bounds handed to the selector are the true hull (C04), nor user literals outside their constraint."),
 "C08": ("asnlint+mirscan", "static analysis: MIR call-graph reachability from the API; enumeration and audit of every panic-capable terminator/callee, recursion SCC and non-iterator loop",
         "Every panic-capable construct, recursive cycle and open loop reachable from the public API is enumerated from rustc's MIR and must be in the audit tables (benign with invariant / baseline / finding); anything new is a violation with a call chain. This is the enumerated necessary condition of totality, not a proof that audited sites are safe.",
         "Trusted: MIR at mir-opt-level=0 exposes all panics as calls/asserts; curated list of panicking library callees; reviewer assertions in audit/*.json (each names its invariant). Says nothing about run time."),
 "C11": ("asnlint+mirscan", "static analysis: effect analysis over MIR (hashed-container iteration, ambient reads, ptr->int casts, statics by type) on all bodies reachable from the API; container type facts",
         "No source of run-to-run or order variation is reachable on the compile path: no HashMap/HashSet iteration, no mutable/interior-mutable statics, no env/clock/thread/address/random reads (audited rustfmt lookup aside), and the definition-carrying containers are name-keyed BTreeMaps. Necessary conditions for byte-identical output; output equality is not computed.",
         "Trusted: std containers other than HashMap/HashSet are deterministic; rustfmt set aside by the property. Duplicate-name last-wins of the definitions map is reported under C10.key."),
 "C12": ("asnlint+mirscan", "static analysis: MIR def-use + dominator analysis of Backend::generate_module (per-module state reset from the current header dominates every reader); template/mangler pairing rules",
         "For every backend, each environment-typed field is assigned from the current module's header at a point dominating every call that can reach a reader of it (no leak between modules); same header for tagging pass and definition; import templates and manglers paired. Equality of per-module output across compilations is not computed.",
         "Trusted: MIR dominators; all definitions of a module share one header."),
 "C16": ("asnlint+mirscan", "static analysis: table containment against rustc's own keyword list (enumerated by the MIR driver); guard/emission pairing and truth tables of the manglers; identifier-annotation decisions evaluated for equal/different spellings",
         "The keyword table must contain every strict/reserved keyword of every edition the compiler knows; each mangler tests the spelling it emits and escapes hits; every emitting fn (set computed from the code) records the original name exactly when the spelling differs. Collisions after mangling are not decided.",
         "Trusted: rustc_span's keyword classification; weak keywords are legal identifiers."),
 "C20": ("asnlint+mirscan", "static analysis: MIR effect classification and dominators (delivery call dominated by the Ok edge of internal_compile()?); pipeline normal forms; decision tables of output_generated, make_output_mode and main",
         "Every write effect on the compile path is the single delivery call in compile(), dominated by the Ok edge; the delivered text is the `generated` of the same pipeline compile_to_string returns; destination, CLI flag and exit-status tables are exhaustive; asn1! pipeline shape. Thorough tier adds compile_fail typestate witnesses.",
         "Not decided: file-system semantics (atomicity, read-only destinations)."),
}

NOT_YET = "check not implemented yet in this revision (in progress); the property is not claimed"

def main():
    checks, na = [], []
    for p in props:
        i = p['id']
        if i in CLAIMS:
            eng, tech, text, note = CLAIMS[i]
            checks.append({
                "property_id": i,
                "quick_cmd": f"./check {i} --tier quick",
                "thorough_cmd": f"./check {i} --tier thorough",
                "evidence_file": f"/verif/evidence/{i}.json",
                "replay_cmd_template": f"./check {i} --replay {{path}}",
                "engine": eng,
                "level_claimed": {"category": "other", "text": text, "design_ref": f"DESIGN.md §3 {i}"},
                "level_note": note,
                "technique": tech,
            })
        else:
            na.append({"property_id": i, "reason": NA.get(i, NOT_YET)})
    m = {
        "version": 1,
        "setup_cmd": "cd /verif && ./tools/setup.sh",
        "hooks": {"guard": "librasn_compiler_verif", "enable": "none needed: static analysis reads /repo's source and MIR; no hooks are compiled into /repo", "baseline_off_cmd": "cd /repo && cargo test --workspace --no-fail-fast --offline", "source_commits": [], "add_only": True},
        "engines": [
            {"name": "asnlint", "path": "/verif/tools/asnlint", "serves_properties": sorted(CLAIMS), "kind_free_text": "syn-based static analyser of the unexpanded source (table extraction, abstract evaluation, template analysis, structural rules) + verdict logic"},
            {"name": "mirscan", "path": "/verif/tools/mirscan", "serves_properties": ["C08", "C11", "C12", "C16", "C20"], "kind_free_text": "rustc_private driver (nightly) emitting MIR facts: resolved call graph, panic-capable terminators, field def-use, CFG"},
        ],
        "checks": checks,
        "not_applicable": na,
        "notes": "All claimed checks are static analyses of /repo's current source; see DESIGN.md. Known genuine defects are listed in known_findings.txt and printed as KNOWN-FINDING lines.",
    }
    json.dump(m, open(os.path.join(V, 'MANIFEST.json'), 'w'), indent=1)
    print("claimed:", sorted(CLAIMS), "not claimed:", [x['property_id'] for x in na])

NA = {}
if __name__ == '__main__':
    main()
