#!/usr/bin/env python3
"""Regenerates /verif/MANIFEST.json from the table below (single source of truth for claims)."""
import json, os
V = os.path.dirname(os.path.dirname(os.path.abspath(__file__)))
props = [json.loads(l) for l in open(os.path.join(V, 'properties.jsonl'))]

# id -> (engine, technique, level text, level note)
CLAIMS = {
 "C03": ("asnlint", "static analysis: decision-table extraction from the syntax tree (header/keyword/class/Add/format_tag tables), composed over the 48-cell configuration space and compared with X.680; field-coverage and guard truth tables",
         "Exhaustive over the property's own finite configuration space (module default x tag keyword x class) by composing tables extracted from the source, plus coverage of every Option<AsnTag> position by the tagging pass and the renderer, and the automatic_tags guard. Decides these structural clauses, not the DER bytes.",
         "Trusted: rasn's derive semantics of tag(..)/automatic_tags; nom combinator semantics; ref/x680_tagging.json transcription. Explicitness of tagged CHOICE components is don't-care (rasn applies it)."),
 "C05": ("asnlint", "static analysis: abstract evaluation of the lexer->IR conversions over opaque list elements; order-relation analysis of the extension-annotation guards; exhaustive guard tables",
         "The four (root, marker, additions) conversions are evaluated on their syntax tree for every small shape (data-independent code, so sizes 0..2 are exhaustive); the generator's index comparison is decided for every order relation; non_exhaustive and group construction by exhaustive tables.",
         "Trusted: rasn's extension_addition(_group)/non_exhaustive semantics; that nom delivers the components it matched. The parser's run-time behaviour is not decided."),
 "C06": ("asnlint", "static analysis: region-exhaustive abstract interpretation (interval/order domain) of both width selectors' syntax trees; exhaustive enum tables",
         "Both selectors use their inputs order-only (enforced, fails closed), so one representative per region of the constant-induced partition of Z decides containment for all integers and all presence/extensibility combinations; max_restrictive (81 cells), to_tokens, literal rendering by exhaustive tables.",
         "Not decided: that the bounds handed to the selector are the true hull (C04), nor user literals outside their constraint."),
 "C08": ("asnlint+mirscan", "static analysis: MIR call-graph reachability from the API; enumeration and audit of every panic-capable terminator/callee, recursion SCC and non-iterator loop",
         "Every panic-capable construct, recursive cycle and open loop reachable from the public API is enumerated from rustc's MIR and must be in the audit tables (benign with invariant / baseline / finding); anything new is a violation with a call chain. This is the enumerated necessary condition of totality, not a proof that audited sites are safe.",
         "Trusted: MIR at mir-opt-level=0 exposes all panics as calls/asserts; curated list of panicking library callees; reviewer assertions in audit/*.json (each names its invariant). Says nothing about run time."),
 "C11": ("asnlint+mirscan", "static analysis: effect analysis over MIR (hashed-container iteration, ambient reads, ptr->int casts, statics by type) on all bodies reachable from the API; container type facts",
         "No source of run-to-run or order variation is reachable on the compile path: no HashMap/HashSet iteration, no mutable/interior-mutable statics, no env/clock/thread/address/random reads (audited rustfmt lookup aside), and the definition-carrying containers are name-keyed BTreeMaps. Necessary conditions for byte-identical output; output equality is not computed.",
         "Trusted: std containers other than HashMap/HashSet are deterministic; rustfmt set aside by the property. Duplicate-name last-wins of the definitions map is reported under C10.key."),
 "C12": ("asnlint+mirscan", "static analysis: MIR def-use + dominator analysis of Backend::generate_module (per-module state reset from the current header dominates every reader); template/mangler pairing rules",
         "For every backend, each environment-typed field is assigned from the current module's header at a point dominating every call that can reach a reader of it (no leak between modules); same header for tagging pass and definition; import templates and manglers paired. Equality of per-module output across compilations is not computed.",
         "Trusted: MIR dominators; all definitions of a module share one header."),
 "C16": ("asnlint+mirscan", "static analysis: table containment against rustc's own keyword list (enumerated by the MIR driver); guard/emission pairing and truth tables of the manglers; identifier-annotation decisions evaluated for equal/different spellings",
         "The keyword table must contain every strict/reserved keyword of every edition the compiler knows; each mangler tests the spelling it emits and escapes hits; every emitting fn (set computed from the code) records the original name exactly when the spelling differs. Collisions after mangling are not decided.",
         "Trusted: rustc_span's keyword classification; weak keywords are legal identifiers."),
 "C20": ("asnlint+mirscan", "static analysis: MIR effect classification and dominators (delivery call dominated by the Ok edge of internal_compile()?); pipeline normal forms; decision tables of output_generated, make_output_mode and main",
         "Every write effect on the compile path is the single delivery call in compile(), dominated by the Ok edge; the delivered text is the `generated` of the same pipeline compile_to_string returns; destination, CLI flag and exit-status tables are exhaustive; asn1! pipeline shape. Thorough tier adds compile_fail typestate witnesses.",
         "Not decided: file-system semantics (atomicity, read-only destinations)."),
}

NOT_YET = "check not implemented yet in this revision (in progress); the property is not claimed"

def main():
    checks, na = [], []
    for p in props:
        i = p['id']
        if i in CLAIMS:
            eng, tech, text, note = CLAIMS[i]
            checks.append({
                "property_id": i,
                "quick_cmd": f"./check {i} --tier quick",
                "thorough_cmd": f"./check {i} --tier thorough",
                "evidence_file": f"/verif/evidence/{i}.json",
                "replay_cmd_template": f"./check {i} --replay {{path}}",
                "engine": eng,
                "level_claimed": {"category": "other", "text": text, "design_ref": f"DESIGN.md §3 {i}"},
                "level_note": note,
                "technique": tech,
            })
        else:
            na.append({"property_id": i, "reason": NA.get(i, NOT_YET)})
    m = {
        "version": 1,
        "setup_cmd": "cd /verif && ./tools/setup.sh",
        "hooks": {"guard": "librasn_compiler_verif", "enable": "none needed: static analysis reads /repo's source and MIR; no hooks are compiled into /repo", "baseline_off_cmd": "cd /repo && cargo test --workspace --no-fail-fast --offline", "source_commits": [], "add_only": True},
        "engines": [
            {"name": "asnlint", "path": "/verif/tools/asnlint", "serves_properties": sorted(CLAIMS), "kind_free_text": "syn-based static analyser of the unexpanded source (table extraction, abstract evaluation, template analysis, structural rules) + verdict logic"},
            {"name": "mirscan", "path": "/verif/tools/mirscan", "serves_properties": ["C08", "C11", "C12", "C16", "C20"], "kind_free_text": "rustc_private driver (nightly) emitting MIR facts: resolved call graph, panic-capable terminators, field def-use, CFG"},
        ],
        "checks": checks,
        "not_applicable": na,
        "notes": "All claimed checks are static analyses of /repo's current source; see DESIGN.md. Known genuine defects are listed in known_findings.txt and printed as KNOWN-FINDING lines.",
    }
    json.dump(m, open(os.path.join(V, 'MANIFEST.json'), 'w'), indent=1)
    print("claimed:", sorted(CLAIMS), "not claimed:", [x['property_id'] for x in na])

NA = {}
if __name__ == '__main__':
    main()
