#!/usr/bin/env python3
"""Regenerates /verif/MANIFEST.json from the table below (single source of truth for claims)."""
import json, os
V = os.path.dirname(os.path.dirname(os.path.abspath(__file__)))
props = [json.loads(l) for l in open(os.path.join(V, 'properties.jsonl'))]

# id -> (engine, technique, level text, level note)
CLAIMS = {
 "C01": ("asnlint", "static analysis: template vocabulary and #[rasn(..)] keys of every quote! body checked against the parsed prelude / derive of the pinned rasn; abstract evaluation (syntax-tree evaluator) of the sites where two generator fns must name the same item or type (definition vs reference of hoisted types, default-function names, integer-type selectors, From impls, import lists, empty SET, refused kinds, fixed-size values, hstrings behind references); keyword table against ref/rust_keywords.json; contradiction rule over link_with_type guards",
         "Necessary conditions of type-checking, each a named structural clause (DESIGN §3 C01): names and attribute keys resolve against the pinned rasn, paired sites agree for every evaluated shape, keywords are escaped. Type-checking of arbitrary generated programs is NOT decided by this family.",
         "Trusted: the registry sources are the versions Cargo.lock pins; Rust prelude list. Nine recorded findings (known_findings.txt), two of them the serial-constraint disagreement shared with C06."),
 "C02": ("asnlint", "static analysis: sibling-agreement rule over every ASN1Type decision (SEQUENCE/SET, SEQUENCE OF/SET OF), traversal coverage of the five container kinds, adaptor whitelist over component-list chains, kind->type tables, abstract evaluation of the wrappers (Box iff recursive, set marker, DEFAULT annotation and helper, member formatter per component kind, rebuilders keep every field, mark_recursive on definition tables)",
         "Every decision over ASN1Type treats SET like SEQUENCE and SET OF like SEQUENCE OF; every linker traversal reaches all container kinds; no component-list chain filters, reorders or truncates; kind tables agree with the reference; wrappers are applied under their exact conditions for every evaluated shape.",
         "Not decided: that nom delivers the components it saw; hoisted names for arbitrary nesting. Two recorded findings."),
 "C03": ("asnlint", "static analysis: decision tables extracted from the syntax tree (header / keyword / class / Add / format_tag) composed over the 48-cell configuration space and compared with X.680 31.2.7; the tagging pass evaluated on a type with a tag at nine kinds of position and two depths; CHOICE override, automatic_tags guard and per-module reset evaluated",
         "Exhaustive over the property's finite configuration space (module default x keyword x class); every tag position of the IR is reached by the pass exactly once and rendered; per-module reset is unconditional. Decides these structural clauses, not DER bytes.",
         "Trusted: rasn's derive semantics of tag(..)/automatic_tags; ref/x680_tagging.json. Three recorded findings (no TAGS clause = IMPLICIT is pinned by a unit test; element tags; nested CHOICE positions)."),
 "C04": ("asnlint", "static analysis: abstract evaluation of fold_constraint_set over all order types of two operands on a 6-point end-point alphabet; chains of three and four operands with the tree the lexer's own set_operation production builds (SRC-G nom interpreter) against the X.680 clause 50 / X.691 10.3.21 oracle; exhaustive tables for serial combination, rendering, fixed_size, PER-visibility, signedness per component kind; the conversions that carry the outer extension marker (single element, set operation, operand of SIZE, operand behind EXCEPT) evaluated with and without it; end-point terminals of the range productions against X.680 51.4",
         "For every evaluated operand tuple and operator sequence the emitted bound never excludes a permitted value and equals the hull of the union of the intersections; serial constraints intersect; extensible exactly with a marker; references and named numbers are looked up under the governing type.",
         "Not decided: chains longer than four operands, parenthesised element sets (a syntax error to this lexer). Recorded findings: untyped named-number fallback, element constraints of SEQUENCE OF <reference>, the `<` of an open end point thrown away."),
 "C05": ("asnlint", "static analysis: abstract evaluation of the lexer->IR conversions over opaque elements (sizes 0..2 exhaustive for data-independent code); the per-component closures of the three renderers evaluated for every order relation (index, first-extension index), both EXTENSIBILITY settings and group / non-group names; non_exhaustive and [[ ]] group construction evaluated",
         "Components after the marker, and only those, are additions; a group becomes one optional member holding the grouped components in order (groups of 1..3); non_exhaustive iff marker or EXTENSIBILITY IMPLIED.",
         "Trusted: rasn's extension_addition(_group)/non_exhaustive semantics. One recorded finding (COMPONENTS OF counted into the index)."),
 "C06": ("asnlint", "static analysis: region-exhaustive abstract interpretation of both width selectors (inputs used order-only, enforced), their agreement on every region and on set-operator shapes, the hull of operator chains (= C04.prec), literal rendering evaluated at the ends of every type's range, exhaustive enum tables, unpacking of outer extension markers",
         "One representative per region of the constant-induced partition of Z decides containment for all integers and presence/extensibility combinations; a fixed-width type only for a non-extensible constraint with both bounds finite; every literal denotes the value and fits its type.",
         "Not decided: user literals outside their constraint. Two recorded findings (serially applied constraints: component type vs DEFAULT helper type)."),
 "C07": ("asnlint", "static analysis: exhaustive evaluation of literal tables and converters (hex digits, 256 octets, X.660 arcs positionally, string constructors); whole-function evaluation of link_with_type / link_struct_like / link_enum_or_distinguished / format_oid on distilled scenarios (value references, named numbers and enumerals incl. nested and behind reference chains, CHOICE / SEQUENCE / list values, written vs DEFAULT vs omitted components, implicit DEFAULTs raw and linked)",
         "Table clauses over their whole domain; for every evaluated scenario the linked value denotes the source value and is rendered under the name the type is declared with.",
         "Everything depending on arbitrary literal contents is not decided. Two recorded findings (OPTIONAL components of SEQUENCE values)."),
 "C08": ("asnlint+mirscan", "static analysis: MIR call-graph reachability from the API; enumeration and audit of every panic-capable terminator/callee, recursion SCC and open loop; evaluation rules that tie audit entries to their guards (reference chases incl. module-qualified cycles, templates, object cycles, slices, float tokens, input-sized ranges, OID arcs, character-table keys, identifier construction)",
         "Every panic-capable construct, recursive cycle and open loop reachable from the public API is enumerated from rustc's MIR and must be in the audit tables; the invariants behind entries that matter are decided by evaluation. The enumerated necessary condition of totality, not a proof that every audited site is safe; nothing about run time.",
         "Trusted: MIR at mir-opt-level=0 exposes all panics as calls/asserts; curated list of panicking library callees; reviewer assertions in audit/*.json. Two recorded findings (parser recursion depth)."),
 "C09": ("asnlint", "static analysis: detector/rewriter symmetry and traversal coverage; phase order of Validator::link; evaluation of the splice, selection, parameter, scope-lookup, value-chain and rebuild functions on definition tables (incl. name orders)",
         "Each notation detector and its rewriter visit the same containers and constraint kinds; importing steps precede resolving steps, values are linked in a later pass; lookups prefer the governing type. The equivalence sugared = expanded itself is NOT decided.",
         "Five recorded findings (COMPONENTS OF appended at the end, untyped fallback, parameter expansion, tag of a selected alternative lost)."),
 "C10": ("asnlint", "static analysis: exhaustive variant analysis of every generator dispatch evaluated whole (generated / reported / silent); removal sites of the linker re-insert on every branch; every bound error of the validator is pushed or returned; folds evaluated for Ok/Err; misread value assignments reported (same and imported governing type); trailing trivia of tail parsers",
         "No IR variant outside the documented silent categories reaches an empty output; warnings are local and none is dropped. The bare-name map key is a recorded finding.",
         "Thorough tier adds a compile_fail witness that CompilerError exposes no bindings."),
 "C11": ("asnlint+mirscan", "static analysis: effect analysis over MIR (hashed iteration, ambient reads, statics by type, thread_local) on all reachable bodies; ordered containers; trailing-trivia and end-of-input anchors of the lexer",
         "No source of run-to-run or order variation is reachable on the compile path; no parser below asn_module depends on what follows the module. Output equality itself is not computed.",
         "Trusted: std containers other than HashMap/HashSet are deterministic; rustfmt set aside by the property."),
 "C12": ("asnlint+mirscan", "static analysis: MIR def-use + dominator analysis of Backend::generate_module (per-module reset dominates every reader); evaluation of import association, its merge loop, import templates, qualified references, value lookups",
         "Per-module state never leaks; each IMPORTS clause becomes a use of exactly its symbols; associated governing types are imported into the right clause; qualified references keep their module.",
         "Two recorded findings (untyped fallback across modules, alias chains not imported)."),
 "C13": ("asnlint", "static analysis: abstract interpretation of the lexer's nom combinator expressions (lead-trivia / nullability summaries, fixpoint over 149 parsers, lookaheads included); audited intra-token boundaries; comment scanner evaluated; reserved word sequences",
         "At every sequencing boundary outside lexical context the right operand skips comments and whitespace; covers all token boundaries of the grammar source rather than sampled layouts.",
         "Trusted: nom sequencing semantics. Doc-comment attribution excluded by the property."),
 "C14": ("asnlint", "static analysis: abstract evaluation of the numbering code reached from enumerated_body (helpers followed, slice::binary_search as std implements it) on all 7 590 enumerations with <= 4 root items and <= 3 additions over {implicit,-1,0,1,2,5}, compared item by item with an X.680 clause 20 oracle",
         "Explicit numbers kept, identifier-only items numbered per 20.3 / 20.6, identifiers in order, emission of the stored index.",
         "Not decided: enumerations beyond the evaluated domain (the code is a fold with a counter and membership tests; the domain covers every order relation)."),
 "C15": ("asnlint", "static analysis: character tables evaluated from their initialisers against X.680 clause 41 (set, order, keys = positions); known-multiplier lists; range index table; set operations and operator chains as the lexer nests them (C15.prec); lookup functions evaluated on sets whose index is not the code point",
         "Each known-multiplier table equals the normative alphabet in canonical order; FROM expressions denote union / intersection with EXCEPT ignored; other string types get no alphabet.",
         "Trusted: ref/x680_charsets.json. Three recorded findings (UniversalString table; alphabets from bare values are pinned by unit tests)."),
 "C16": ("asnlint+mirscan", "static analysis: keyword table against rustc's own list (MIR driver); manglers evaluated (guards, case rules on hyphen/digit names); identifier-annotation decision at every emitting fn; raw ASN.1 names reaching identifier construction",
         "Every strict/reserved keyword is escaped; the documented case rules hold on the evaluated names; the original spelling is recorded exactly when it differs.",
         "Trusted: rustc_span's keyword classification. Collisions after mangling are a recorded finding under C01."),
 "C17": ("asnlint", "static analysis: Display, contextualize (with until_next_unindented), ReportData::from and the nom::Err -> LexerError conversion evaluated on concrete reports and texts; Input::slice bookkeeping evaluated on LF / CRLF / CR texts; Input constructors, reset_context, the context_boundary parser, AsnSourceUnit::try_from, asn_spec and Input::src_file evaluated; who-may-write of the position fields",
         "The three renderings show the same line for every evaluated position; line = 1 + line breaks consumed; the source path is reported when there is one. Which position nom selects is not decided.",
         "What remains syntactic: the who-may-write list of the position fields and the list of text-rewriting methods on the path from the source to the lexer."),
 "C18": ("asnlint", "static analysis: bracket balance of every TypeScript template; category typing of union producers vs []; member / choice / enum / value renderers and the dispatcher evaluated per kind; import-line decision evaluated on spellings",
         "One balanced export per type under its mangled name; `?` iff OPTIONAL / DEFAULT / group, index signature iff extensible, CHOICE as union of single-key objects, fixed-size BIT STRING as string.",
         "Declared-or-imported closure of names is not decided. Three recorded findings (import decision taken from the spelling; INSTANCE OF)."),
 "C19": ("asnlint", "static analysis: who-may-read table of Config fields and derived state; option-dependent templates and the module import evaluated for both values under every combination; From impls, derive lines, custom imports evaluated; the derive-annotation parser interpreted character by character (SRC-C) inside Rasn::new against an independent definition of a derive attribute",
         "Every option is read only by the fns of its documented aspect and changes only the documented tokens.",
         "Trusted: audit/config_reads.json."),
 "C20": ("asnlint+mirscan", "static analysis: MIR effect classification and dominators (single delivery call dominated by the Ok edge, must-pass-through); effect model of std's writing primitives evaluated per OutputMode arm; CLI flag, exit-status and builder tables; the directory walk of the CLI evaluated on a modelled walk; the text asn1! hands to the compiler evaluated on modules and snippets; typestate setters evaluated",
         "Every write effect on the compile path is the one delivery of exactly the compiled text to the documented destination, truncating, errors as Err; nothing is written on failure; the CLI and the macro use the library's pipeline. Thorough tier adds compile_fail typestate witnesses.",
         "Not decided: file-system semantics (atomicity, read-only destinations)."),
}

NOT_YET = "check not implemented yet in this revision (in progress); the property is not claimed"

def main():
    checks, na = [], []
    for p in props:
        i = p['id']
        if i in CLAIMS:
            eng, tech, text, note = CLAIMS[i]
            checks.append({
                "property_id": i,
                "quick_cmd": f"./check {i} --tier quick",
                "thorough_cmd": f"./check {i} --tier thorough",
                "evidence_file": f"/verif/evidence/{i}.json",
                "replay_cmd_template": f"./check {i} --replay {{path}}",
                "engine": eng,
                "level_claimed": {"category": "other", "text": text, "design_ref": f"DESIGN.md §3 {i}"},
                "level_note": note,
                "technique": tech,
            })
        else:
            na.append({"property_id": i, "reason": NA.get(i, NOT_YET)})
    m = {
        "version": 1,
        "setup_cmd": "cd /verif && ./tools/setup.sh",
        "hooks": {"guard": "librasn_compiler_verif", "enable": "none needed: static analysis reads /repo's source and MIR; no hooks are compiled into /repo", "baseline_off_cmd": "cd /repo && cargo test --workspace --no-fail-fast --offline", "source_commits": [], "add_only": True},
        "engines": [
            {"name": "asnlint", "path": "/verif/tools/asnlint", "serves_properties": sorted(CLAIMS), "kind_free_text": "syn-based static analyser of the unexpanded source (table extraction, syntax-tree abstract evaluator, nom-combinator interpreters SRC-P / SRC-G, template analysis, structural rules) + verdict logic"},
            {"name": "mirscan", "path": "/verif/tools/mirscan", "serves_properties": ["C08", "C11", "C12", "C16", "C20"], "kind_free_text": "rustc_private driver (nightly) emitting MIR facts: resolved call graph, panic-capable terminators, field def-use, CFG"},
        ],
        "checks": checks,
        "not_applicable": na,
        "notes": "All claimed checks are static analyses of /repo's current source; see DESIGN.md. Known genuine defects are listed in known_findings.txt and printed as KNOWN-FINDING lines.",
    }
    json.dump(m, open(os.path.join(V, 'MANIFEST.json'), 'w'), indent=1)
    print("claimed:", sorted(CLAIMS), "not claimed:", [x['property_id'] for x in na])

NA = {}
if __name__ == '__main__':
    main()
